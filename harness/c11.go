package h

import (
	"fmt"
)

// C11 — test cases are isolated: one case cannot change the outcome of another.

func init() { scenarios["C11"] = scenarioC11 }

var c11Behaviours = []string{"pass", "skip", "errorf", "errorf-skip", "cleanup-errorf", "cleanup-panic", "fatal", "errorf-invalid", "cleanup-skip"}

func rangeIf(v int, lo, hi int, body ...*Stmt) *Stmt {
	return &Stmt{K: SIf, Cond: &Cond{Var: v, Op: OpGE, C: int64(lo)}, Body: []*Stmt{{K: SIf, Cond: &Cond{Var: v, Op: OpLT, C: int64(hi)}, Body: body}}}
}

// genC11Prog: the behaviour of each test case is a function of a drawn selector.
func genC11Prog(t *Tape) (*Prog, []int) {
	p := &Prog{}
	sel := 0
	x := 1
	p.NVars = 3
	// weights of the 7 behaviours, summing to 100
	w := make([]int, 9)
	w[0] = t.Int("c11.w.pass", 30, 80)
	rest := 100 - w[0]
	for i := 1; i < 9; i++ {
		if i == 8 {
			w[i] = rest
			break
		}
		w[i] = t.Int(fmt.Sprintf("c11.w.%d", i), 0, rest)
		if t.Chance("c11.w.zero", 30) {
			w[i] = 0
		}
		rest -= w[i]
	}
	bounds := make([]int, 10)
	for i := 0; i < 9; i++ {
		bounds[i+1] = bounds[i] + w[i]
	}
	labelled := t.Chance("c11.labelled", 30)
	lab := func(s string) string {
		if labelled {
			return s
		}
		return ""
	}
	p.Body = append(p.Body, &Stmt{K: SDraw, Var: sel, Gen: &GenSpec{K: "intrange", A: 0, B: 99}, Label: lab("sel")})
	// cleanup registered in every case; it fails only for its selector ranges
	p.Body = append(p.Body, &Stmt{K: SCleanup, ID: 0, Body: []*Stmt{
		{K: SCtx},
		rangeIf(sel, bounds[4], bounds[5], &Stmt{K: SFail, FKind: FKErrorf, Site: 1}),
		rangeIf(sel, bounds[5], bounds[6], &Stmt{K: SFail, FKind: FKPanicStr, Site: 2}),
		// registered first, so it runs last: a Skip raised by the last cleanup function makes the case invalid
		rangeIf(sel, bounds[8], bounds[9], &Stmt{K: SSkip, SKind: 0}),
	}})
	if t.Chance("c11.ctx", 50) {
		p.Body = append(p.Body, &Stmt{K: SCtx, Park: t.Chance("c11.park", 50)})
	}
	p.Body = append(p.Body, &Stmt{K: SDraw, Var: x, Gen: &GenSpec{K: []string{"smallrange", "sliceof", "distinct", "stringn"}[t.Pick("c11.gen", 4)], A: 5, Sub: &GenSpec{K: "uint8"}}, Label: lab("x")})
	p.Body = append(p.Body,
		rangeIf(sel, bounds[1], bounds[2], &Stmt{K: SSkip, SKind: t.Pick("skip.kind", 3)}),
		rangeIf(sel, bounds[2], bounds[3], &Stmt{K: SFail, FKind: nonFatalKinds[t.Pick("c11.nf", 3)], Site: 0}),
		rangeIf(sel, bounds[3], bounds[4], &Stmt{K: SFail, FKind: FKErrorf, Site: 0}, &Stmt{K: SSkip, SKind: t.Pick("skip.kind", 3)}),
		rangeIf(sel, bounds[6], bounds[7], &Stmt{K: SFail, FKind: fatalKinds[t.Pick("c11.fk", len(fatalKinds))], Site: 3}),
		// a non-fatal failure followed by an invalidation that does not come from Skip (a generator giving up)
		rangeIf(sel, bounds[7], bounds[8], &Stmt{K: SFail, FKind: FKErrorf, Site: 0}, &Stmt{K: SDraw, Var: 2, Gen: &GenSpec{K: "filter_never"}, Label: lab("never")}),
	)
	if w[0]%2 == 0 {
		// every other program ends in a small state machine (reached by the cases that neither skipped nor stopped before);
		// the interpreter names its actions after what the case drew first, so the names differ from case to case
		p.NVars = 4
		p.Body = append(p.Body, &Stmt{K: SRepeat, Acts: []Action{
			{Name: "A", Body: []*Stmt{{K: SDraw, Var: 3, Gen: &GenSpec{K: "uint8"}, Label: lab("a")}}},
			{Name: "B", Body: []*Stmt{{K: SLog, LogK: 0, LogN: 3}}},
		}})
	}
	p.NSites = 4
	return p, bounds
}

func behaviourOf(inv *Invocation, bounds []int) int {
	if len(inv.Draws) == 0 {
		return -1
	}
	var v int
	if _, err := fmt.Sscanf(inv.Draws[0].Text, "%d", &v); err != nil {
		return -1
	}
	for i := 0; i < 9; i++ {
		if v >= bounds[i] && v < bounds[i+1] {
			return i
		}
	}
	return -1
}

func scenarioC11(rc *RunCtx) {
	t := rc.T
	prog, bounds := genC11Prog(t)
	fl := genFlags(t, 40)
	fl.Checks = t.Int("c11.checks", 2, 60)
	fl.Verbose = t.Chance("c11.v", 40)
	fl.Debug = false
	cc := genClockChoice(t, fl.ShrinkTime, 6, 2, 1, 2, 0)
	name := genName(t, false)
	_, cr := runWithClock(rc, prog, RunOpt{Name: name, Dir: rc.FreshDir(), Flags: fl, WithCtx: t.Chance("tb.ctx", 15)}, cc, rc.FreshDir())
	rc.Sample = fmt.Sprintf("%v clock=%v bounds=%v verdict=%s invocations=%d\n%s", fl, cr.Clock, bounds, cr.Verdict, len(cr.W.Invs), prog)
	rc.Key = MixSeed(HashString(prog.String()), fl.Seed, uint64(fl.Checks), uint64(cr.Clock.Kind), uint64(cr.Clock.K))
	gen := cr.ByPhase("gen")
	rc.Nontriv = len(gen) >= 2
	// reach probes: ordered pairs of consecutive behaviours
	prev := -1
	for _, inv := range gen {
		b := behaviourOf(inv, bounds)
		if b >= 0 && prev >= 0 {
			rc.Inc(fmt.Sprintf("probe.pair.%s>%s", c11Behaviours[prev], c11Behaviours[b]))
		}
		prev = b
	}
	judgeC11(rc, cr)
}

func judgeC11(rc *RunCtx, cr *CheckRun) {
	w := cr.W
	if w.Overrun {
		return
	}
	if w.Escaped != nil || cr.BubblePanic != "" {
		rc.V(viol("C11.crash", "escaped", "Check panicked: %s %s", w.EscapedStr, cr.BubblePanic))
		return
	}
	gen := cr.ByPhase("gen")
	// R1 (blame): the case Check treats as falsifying is one that signalled
	if failedVerdict(cr) && len(gen) > 0 && len(cr.ByPhase("failfile")) == 0 {
		O := gen[len(gen)-1]
		if !O.Signalled() && !O.NoValidAction {
			prevSig := ""
			for _, inv := range gen[:len(gen)-1] {
				if inv.Signalled() {
					prevSig = fmt.Sprintf("; an earlier case (inv %d) had signalled %v in %s", inv.Idx, inv.Signals[0].Kind, inv.Signals[0].Where)
				}
			}
			rc.V(viol("C11.R1", "blamed-innocent-case", "Check treats test case #%d as falsifying but nothing failed in it%s", len(gen), prevSig))
		}
		// and a case that signalled is never passed over
		for _, inv := range gen[:len(gen)-1] {
			if inv.Signalled() {
				rc.V(viol("C11.R1", "signal-passed-over", "test case inv %d signalled %v (%s) but Check went on generating", inv.Idx, inv.Signals[0].Kind, inv.Signals[0].Where))
				break
			}
		}
	}
	if !failedVerdict(cr) {
		for _, inv := range gen {
			if inv.Signalled() {
				rc.V(viol("C11.R1", "signal-lost", "test case inv %d signalled %v (%s) but Check reported %s", inv.Idx, inv.Signals[0].Kind, inv.Signals[0].Where, cr.Verdict))
				break
			}
		}
	}
	// R2: never flaky
	if cr.Verdict == "flaky" {
		rc.V(viol("C11.R2", "flaky", "deterministic property called flaky: %s", oneLine(cr.VerdictText, 160)))
	}
	// R3: draw bookkeeping restarts in every case (verbose mode logs "#k" labels)
	if cr.Flags.Verbose && !cr.Flags.Debug {
		judgeVerboseDrawLogs(rc, cr)
		rc.Inc("probe.verbose_draw_logs_checked")
	}
	// R3: brackets of case i closed before case i+1 begins
	judgeBrackets(rc, cr, "C11.R3")
}
