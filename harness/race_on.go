//go:build race

package h

const raceEnabled = true
