package h

import (
	"context"
	"flag"
	"fmt"
	"os"
	"path/filepath"
	"sort"
	"strings"
	"time"

	"pgregory.net/rapid"
)

// ---------------------------------------------------------------------------
// Recorder: one global sequence number for everything observable.

type EvKind int

const (
	EvInvBegin EvKind = iota
	EvInvEnd
	EvDraw
	EvSignal
	EvSkip
	EvCleanupReg
	EvCleanupRun
	EvCleanupEnd
	EvCtxSample
	EvTB
	EvAction
	EvLog
)

var evNames = [...]string{"inv-begin", "inv-end", "draw", "signal", "skip", "cleanup-reg", "cleanup-run", "cleanup-end", "ctx-sample", "tb", "action", "log"}

func (k EvKind) String() string { return evNames[k] }

type Event struct {
	Seq  int
	Kind EvKind
	Inv  int    // invocation index (-1 for TB events outside an invocation)
	A    string // kind-specific
	B    string
	N    int
	OK   bool
}

type DrawRec struct {
	Label string
	Text  string // exactly what %#v prints (what rapid logs)
	Var   int
	Norm  string // pointer-normalised text for cross-run comparison
	Rejected bool // drawn by a state-machine action attempt that drew and then skipped (removed by pruning)
}

type SignalRec struct {
	Kind  FailKind
	Site  int
	Where string // body/action/invariant/custom/cleanup/goroutine
	Fatal bool
	Msg   string
	Seq   int
}

type CtxRec struct {
	Ctx   context.Context
	Where string
	Seq   int
	InCleanup bool
}

// Invocation is one call of the property function (or of a Custom generator function) by rapid.
type Invocation struct {
	Idx      int
	Custom   bool
	Parent   int // enclosing invocation for Custom, else -1
	SeqBegin int
	SeqEnd   int
	Info     rapid.VerifTInfo
	Phase    string // filled in by classify(): failfile, gen, repro, cand, confirm, capture, final

	Draws    []DrawRec // top-level draws of this T, incl. "action" pseudo-draws, in order
	Signals  []SignalRec
	Skipped  bool
	SkipSeq  int
	Returned bool // function returned normally
	Ended    bool // deferred end hook ran
	OwnStop  bool // at the end: the interpreter itself initiated the unwinding (fatal signal or skip)
	unwinding string // "", "skip", "fatal": what the interpreter raised last and has not seen recovered
	unwindWhere string
	EndState string // returned | skip | fatal | rapid (unwound by something rapid raised)
	stepStart int // index into Draws where the current state-machine step began
	inRepeat  int
	actTries  int // consecutive action tries that skipped without drawing
	NoValidAction bool // ended inside Repeat, unwound by rapid, after action tries that all skipped: rapid's own "no valid action" failure (or an invalid-data rejection)

	CleanReg []int // cleanup ids in registration order
	CleanRun []int // cleanup ids in execution order
	Ctxs     []CtxRec

	RecData   []uint64
	RecGroups []rapid.VerifGroup

	tickIdx int      // harness-call index of this invocation's begin tick
	ElapsedAtEnd time.Duration // simulated time elapsed in this run when the property function ended
	Actions []string // executed action names, in order (each try)
	WaitersParked int

	// bracket verification at the first later observation point (next invocation begin / enclosing end / end of Check)
	Verified        bool
	CtxOpenAtNext   int
	CleanupsPending int
}

func (inv *Invocation) FatalSignal() *SignalRec {
	for i := range inv.Signals {
		if inv.Signals[i].Fatal {
			return &inv.Signals[i]
		}
	}
	return nil
}

func (inv *Invocation) Signalled() bool { return len(inv.Signals) > 0 }

// SiteKey is the property-level notion of "failure site": the fatal statement, or "nonfatal".
func (inv *Invocation) SiteKey() string {
	if f := inv.FatalSignal(); f != nil {
		return fmt.Sprintf("site%d", f.Site)
	}
	if len(inv.Signals) > 0 {
		return "nonfatal"
	}
	return "none"
}

// ---------------------------------------------------------------------------
// Clock policies. Time moves only when harness code sleeps inside the bubble.

type ClockKind int

const (
	ClkFrozen ClockKind = iota
	ClkDrip
	ClkHeavy
	ClkCut
	ClkStall
)

var clkNames = [...]string{"FROZEN", "DRIP", "HEAVY", "CUT", "STALL"}

func (k ClockKind) String() string { return clkNames[k] }

type ClockPolicy struct {
	Kind  ClockKind
	Sub   uint64        // sub-seed for DRIP/HEAVY
	K     int           // CUT/STALL: harness-call index at which the jump happens
	Delta time.Duration // CUT/STALL jump
}

func (c ClockPolicy) String() string {
	switch c.Kind {
	case ClkCut, ClkStall:
		return fmt.Sprintf("%v(k=%d,Δ=%v)", c.Kind, c.K, c.Delta)
	case ClkDrip, ClkHeavy:
		return fmt.Sprintf("%v(sub=%d)", c.Kind, c.Sub)
	}
	return c.Kind.String()
}

type clock struct {
	pol     ClockPolicy
	rng     *RNG
	calls   int
	Elapsed time.Duration
	Jumps   int
}

func newClock(p ClockPolicy) *clock {
	return &clock{pol: p, rng: NewRNG(p.Sub ^ 0x5bd1e995)}
}

// Tick is called at every harness call (invocation begin, every TB callback).
func (c *clock) Tick() {
	i := c.calls
	c.calls++
	var d time.Duration
	switch c.pol.Kind {
	case ClkFrozen:
	case ClkDrip:
		d = time.Duration(1000 + c.rng.Uintn(9_999_000)) // 1µs .. 10ms
	case ClkHeavy:
		switch c.rng.Uintn(99) {
		case 0:
			d = time.Duration(c.rng.Uintn(uint64(3 * time.Minute)))
		case 1, 2, 3:
			d = time.Duration(c.rng.Uintn(uint64(2 * time.Second)))
		default:
			d = time.Duration(c.rng.Uintn(uint64(200 * time.Microsecond)))
		}
	case ClkCut, ClkStall:
		if i == c.pol.K {
			d = c.pol.Delta
			c.Jumps++
		}
	}
	if d > 0 {
		time.Sleep(d) // inside a synctest bubble: advances the fake clock, costs nothing
		c.Elapsed += d
	}
}

// ---------------------------------------------------------------------------
// simTB: the testing.TB rapid reports to.

type tbStop struct{ why string }

type TBCall struct {
	Seq    int
	Method string
	Text   string
}

type simTB struct {
	w      *World
	name   string
	failed bool
	Calls  []TBCall
	ctx    context.Context // non-nil for the Context()-providing variant
}

type simTBCtx struct{ *simTB }

func (tb simTBCtx) Context() context.Context { return tb.ctx }

func (tb *simTB) rec(method, text string) {
	tb.w.clk.Tick()
	tb.w.memBytes += int64(2*len(text)) + 64
	seq := tb.w.next()
	tb.Calls = append(tb.Calls, TBCall{seq, method, text})
	if method != "Helper" {
		tb.w.Events = append(tb.w.Events, Event{Seq: seq, Kind: EvTB, Inv: -1, A: method, B: text})
	}
}

func (tb *simTB) Helper()      { tb.rec("Helper", "") }
func (tb *simTB) Name() string { tb.rec("Name", ""); return tb.name }
func (tb *simTB) Logf(format string, args ...any) {
	tb.rec("Logf", fmt.Sprintf(format, args...))
}
func (tb *simTB) Log(args ...any) { tb.rec("Log", fmt.Sprintln(args...)) }
func (tb *simTB) Skipf(format string, args ...any) {
	tb.rec("Skipf", fmt.Sprintf(format, args...))
	panic(tbStop{"skip"})
}
func (tb *simTB) Skip(args ...any) { tb.rec("Skip", fmt.Sprintln(args...)); panic(tbStop{"skip"}) }
func (tb *simTB) SkipNow()         { tb.rec("SkipNow", ""); panic(tbStop{"skip"}) }
func (tb *simTB) Errorf(format string, args ...any) {
	tb.rec("Errorf", fmt.Sprintf(format, args...))
	tb.failed = true
}
func (tb *simTB) Error(args ...any) { tb.rec("Error", fmt.Sprintln(args...)); tb.failed = true }
func (tb *simTB) Fatalf(format string, args ...any) {
	tb.rec("Fatalf", fmt.Sprintf(format, args...))
	tb.failed = true
	panic(tbStop{"fatal"})
}
func (tb *simTB) Fatal(args ...any) {
	tb.rec("Fatal", fmt.Sprintln(args...))
	tb.failed = true
	panic(tbStop{"fatal"})
}
func (tb *simTB) FailNow()     { tb.rec("FailNow", ""); tb.failed = true; panic(tbStop{"failnow"}) }
func (tb *simTB) Fail()        { tb.rec("Fail", ""); tb.failed = true }
func (tb *simTB) Failed() bool { tb.rec("Failed", ""); return tb.failed }

func (tb *simTB) Count(method string) int {
	n := 0
	for _, c := range tb.Calls {
		if c.Method == method {
			n++
		}
	}
	return n
}

// Texts returns the texts of calls to the given methods, in order.
func (tb *simTB) Texts(methods ...string) []TBCall {
	var out []TBCall
	for _, c := range tb.Calls {
		for _, m := range methods {
			if c.Method == m {
				out = append(out, c)
			}
		}
	}
	return out
}

// ---------------------------------------------------------------------------
// World: everything one simulated execution owns.

type Flags struct {
	Checks     int
	Steps      int
	Seed       uint64
	ShrinkTime time.Duration
	NoFailFile bool
	FailFile   string
	Verbose    bool
	Debug      bool
	Short      bool // go test -short: rapid then runs fewer checks and shorter state machines
}

func (f Flags) String() string {
	return fmt.Sprintf("checks=%d steps=%d seed=%d shrinktime=%v nofailfile=%v failfile=%q v=%v debug=%v short=%v",
		f.Checks, f.Steps, f.Seed, f.ShrinkTime, f.NoFailFile, f.FailFile, f.Verbose, f.Debug, f.Short)
}

func setFlag(name, val string) {
	if err := flag.Set(name, val); err != nil {
		panic(fmt.Sprintf("harness: flag.Set(%s,%s): %v", name, val, err))
	}
}

func (f Flags) Apply() {
	setFlag("rapid.checks", fmt.Sprint(f.Checks))
	setFlag("rapid.steps", fmt.Sprint(f.Steps))
	setFlag("rapid.seed", fmt.Sprint(f.Seed))
	setFlag("rapid.shrinktime", f.ShrinkTime.String())
	setFlag("rapid.nofailfile", fmt.Sprint(f.NoFailFile))
	setFlag("rapid.failfile", f.FailFile)
	setFlag("rapid.v", fmt.Sprint(f.Verbose))
	setFlag("rapid.debug", fmt.Sprint(f.Debug))
	setFlag("test.short", fmt.Sprint(f.Short))
	setFlag("rapid.log", "false")
	setFlag("rapid.debugvis", "false")
}

type World struct {
	seq    int
	Events []Event
	Invs   []*Invocation
	clk    *clock
	TB     *simTB

	pending   []*Invocation // ended, bracket not yet verified
	cur       *Invocation // innermost open invocation
	stack     []*Invocation
	nextClean int

	// liveness of Done()-waiters (C10-R5)
	waiterDone  chan int
	waiterFree  chan struct{}
	WaitersMade int

	MaxInvocations int
	Overrun        bool
	inBubble       bool
	memBytes       int64 // rough size of what this run has recorded (bounded: a run that outgrows it ends inconclusive)

	Escaped    any    // panic value that escaped Check (other than the TB sentinel)
	EscapedStr string
	EscapedStack string
	StopWhy    string // how Check left: "return", "failnow", ...
	CtxAtEnd   []bool // filled by the bubble wrapper
}

func NewWorld(name string, pol ClockPolicy, withCtx bool) *World {
	w := &World{clk: newClock(pol), MaxInvocations: 30000}
	w.TB = &simTB{w: w, name: name}
	if withCtx {
		w.TB.ctx = context.WithValue(context.Background(), ctxKey{}, "simtb")
	}
	return w
}

// initChans must run inside the bubble: channels made outside are not durably blocking for synctest.
func (w *World) initChans() {
	w.waiterDone = make(chan int, 1<<16)
	w.waiterFree = make(chan struct{})
}

type ctxKey struct{}

func (w *World) next() int { w.seq++; return w.seq }

func (w *World) ev(k EvKind, inv int, a, b string, n int, ok bool) int {
	w.memBytes += int64(3*(len(a)+len(b))) + 96 // the same text is kept in the event, the draw record and its normal form
	s := w.next()
	w.Events = append(w.Events, Event{Seq: s, Kind: k, Inv: inv, A: a, B: b, N: n, OK: ok})
	return s
}

type overrunPanic struct{}

func (w *World) beginInv(t *rapid.T, custom bool) *Invocation {
	tick := w.clk.calls
	w.clk.Tick()
	if w.Overrun || len(w.Invs) >= w.MaxInvocations || w.memBytes > 384<<20 {
		// rapid recovers every panic of the property, so unwinding alone does not end the Check: push the (fake) clock
		// far past every deadline so that rapid stops generating / minimizing at its next deadline check
		if !w.Overrun && w.inBubble {
			time.Sleep(100000 * time.Hour)
		}
		w.Overrun = true
		panic(overrunPanic{})
	}
	w.verifyPending()
	inv := &Invocation{Idx: len(w.Invs), Custom: custom, Parent: -1, tickIdx: tick}
	if w.cur != nil {
		inv.Parent = w.cur.Idx
	}
	inv.Info = rapid.VerifInfo(t)
	w.memBytes += int64(8*len(inv.Info.Buf)) + 512
	w.Invs = append(w.Invs, inv)
	inv.SeqBegin = w.ev(EvInvBegin, inv.Idx, "", "", 0, custom)
	w.stack = append(w.stack, inv)
	w.cur = inv
	return inv
}

// endInv runs as a plain deferred call (never recovers).
// verifyPending: at an observation point every bracket of an earlier, finished invocation must be closed.
func (w *World) verifyPending() {
	for _, p := range w.pending {
		p.Verified = true
		for _, c := range p.Ctxs {
			if !c.InCleanup && c.Ctx.Err() == nil {
				p.CtxOpenAtNext++
			}
		}
		p.CleanupsPending = len(p.CleanReg) - len(p.CleanRun)
	}
	w.pending = w.pending[:0]
}

func (w *World) endInv(t *rapid.T, inv *Invocation) {
	w.verifyPending() // inner (Custom) brackets close before the enclosing call ends
	w.pending = append(w.pending, inv)
	inv.Ended = true
	inv.ElapsedAtEnd = w.clk.Elapsed
	switch {
	case inv.Returned:
		inv.EndState = "returned"
	case inv.unwinding != "":
		inv.EndState = inv.unwinding
		inv.OwnStop = true
	default:
		inv.EndState = "rapid"
	}
	inv.Skipped = inv.EndState == "skip"
	if inv.EndState == "rapid" && inv.inRepeat > 0 && inv.actTries > 0 {
		inv.NoValidAction = true
	}
	if inv.Info.Persist {
		inv.RecData, inv.RecGroups = rapid.VerifRecorded(t)
		w.memBytes += int64(8*len(inv.RecData) + 64*len(inv.RecGroups))
	}
	inv.SeqEnd = w.ev(EvInvEnd, inv.Idx, "", "", 0, inv.Returned)
	// pop (also pops anything left above it: an inner Custom invocation ends before the outer one by defer order)
	for len(w.stack) > 0 {
		top := w.stack[len(w.stack)-1]
		w.stack = w.stack[:len(w.stack)-1]
		if top == inv {
			break
		}
	}
	w.cur = nil
	if len(w.stack) > 0 {
		w.cur = w.stack[len(w.stack)-1]
	}
}

// ---------------------------------------------------------------------------
// Scratch directory helpers (the only durable state).

type DirEntry struct {
	Path string
	Size int64
	Mode os.FileMode
}

func Snapshot(root string) []DirEntry {
	var out []DirEntry
	_ = filepath.Walk(root, func(p string, fi os.FileInfo, err error) error {
		if err != nil || p == root {
			return nil
		}
		rel, _ := filepath.Rel(root, p)
		out = append(out, DirEntry{rel, fi.Size(), fi.Mode()})
		return nil
	})
	sort.Slice(out, func(i, j int) bool { return out[i].Path < out[j].Path })
	return out
}

func FailFilesIn(snap []DirEntry) []string {
	var out []string
	for _, e := range snap {
		if e.Mode.IsRegular() && strings.HasSuffix(e.Path, ".fail") {
			out = append(out, e.Path)
		}
	}
	return out
}
