module verifharness

go 1.25

require (
	github.com/anishathalye/porcupine v1.3.0
	pgregory.net/rapid v0.0.0
)

replace pgregory.net/rapid => ../rapid
