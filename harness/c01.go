package h

import (
	"fmt"
	"os"
	"path/filepath"
	"strings"
	"time"
)

// C01 — a reported failure is real.

func init() { scenarios["C01"] = scenarioC01 }

func failingProfile(t *Tape) *Profile {
	pf := &Profile{MaxStmts: 8, MinFail: 1, MaxFail: 4, FatalPct: 70, PSkip: 15, PRepeat: 25, PCustom: 25, PCleanup: 15, PCtx: 10, PLog: 25, PGo: 5}
	pf.RejectHeavy = t.Chance("pf.rejectheavy", 50)
	pf.SiteStyles = true
	if t.Chance("pf.customfail", 30) {
		pf.CustomFail = 40
	}
	if t.Chance("pf.noskip", 50) {
		pf.PSkip = 0
	}
	if t.Chance("pf.easy", 40) {
		pf.FailCondEasy = true
	}
	if curTier == "thorough" && t.Chance("pf.deep", 25) {
		pf.MaxStmts, pf.MaxFail = 14, 6
	}
	return pf
}

// retryTemplate: one to four values of a Custom generator whose function (a) is abandoned from inside a nested draw every
// other time (an inner filter runs out of tries: groups that never end inside a discarded attempt), so the value is
// retried, (b) may be rejected by an enclosing filter, and (c) fails itself above a threshold - on a first try or on a retry.
func retryTemplate(t *Tape) *Prog {
	p := &Prog{NVars: 4, NSites: 2, NCustom: 1}
	c := &CustomSpec{ID: 0, NDraw: 1, Max: t.Int("rt.max", 4, 30), Vars: []int{1, 2}}
	c.FailIf = &Cond{Var: 1, F: 0, Op: OpGE, C: int64(t.Int("rt.thr", 1, c.Max))}
	c.FKind = []FailKind{FKFatalf, FKPanicStr, FKErrorf, FKIndex, FKErrorf, FKError}[t.Pick("rt.kind", 6)]
	c.Site = 0
	c.Body = []*Stmt{{K: SDraw, Var: 2, Gen: &GenSpec{K: "filter_rare", Sub: &GenSpec{K: "smallrange", A: t.Int("rt.dom", 1, 12)}}, Label: "ci0"}}
	p.Customs = []*CustomSpec{c}
	var elem *GenSpec = &GenSpec{K: "custom", Cust: c}
	if t.Chance("rt.outer_filter", 40) {
		elem = &GenSpec{K: "filter_even", Sub: elem}
	}
	gen := elem
	if t.Chance("rt.slice", 60) {
		a := t.Int("rt.min", 1, 3)
		gen = &GenSpec{K: "slicen", A: a, B: a + t.Int("rt.span", 0, 3), Sub: elem}
	}
	p.Body = []*Stmt{{K: SDraw, Var: 0, Gen: gen, Label: "v"}}
	inCleanup := c.Max%3 == 0
	if inCleanup {
		// the value is drawn by a cleanup function of the property (no tape draw decides this: existing tapes decode as before)
		p.Body = []*Stmt{{K: SCleanup, ID: 0, Body: p.Body}}
	}
	if t.Chance("rt.tail", 50) {
		tail := []*Stmt{{K: SDraw, Var: 3, Gen: &GenSpec{K: "uint8"}, Label: "w"},
			{K: SIf, Cond: &Cond{Var: 3, F: 0, Op: OpGE, C: int64(t.Int("rt.tailthr", 0, 200))}, Body: []*Stmt{{K: SFail, FKind: FKFatal, Site: 1}}}}
		if inCleanup {
			// one failure per test case: a second one raised while the first unwinds would make "the" failure ambiguous
			tail = tail[:1]
		}
		p.Body = append(p.Body, tail...)
	}
	return p
}

// signalSkipTemplate: a state machine one of whose actions draws, signals a non-fatal failure above a threshold and
// then skips ("not applicable"): the falsifying step is at the same time a rejected one.
func signalSkipTemplate(t *Tape) *Prog {
	p := &Prog{NVars: 3, NSites: 1}
	thr := int64(t.Int("ss.thr", 0, 250))
	sig := &Stmt{K: SIf, Cond: &Cond{Var: 0, F: 0, Op: OpGE, C: thr}, Body: []*Stmt{
		{K: SFail, FKind: []FailKind{FKErrorf, FKError, FKFail}[t.Pick("ss.kind", 3)], Site: 0},
		{K: SSkip, SKind: t.Pick("ss.skip", 3)},
	}}
	acts := []Action{
		{Name: "A", Body: []*Stmt{{K: SDraw, Var: 0, Gen: &GenSpec{K: "uint8"}, Label: "a"}, sig}},
		{Name: "B", Body: []*Stmt{{K: SDraw, Var: 1, Gen: &GenSpec{K: "smallrange", A: 9}, Label: "b"}}},
		{Name: "C", Body: []*Stmt{{K: SLog, LogK: 0, LogN: 3}}},
	}
	rep := &Stmt{K: SRepeat, Acts: acts, ViaSM: t.Chance("ss.viasm", 30)}
	if t.Chance("ss.inv", 40) {
		rep.HasInv = true
		rep.Inv = []*Stmt{{K: SLog, LogK: 0, LogN: 5}}
	}
	if t.Chance("ss.lead", 50) {
		p.Body = append(p.Body, &Stmt{K: SDraw, Var: 2, Gen: &GenSpec{K: "stringn", A: 4}, Label: "lead"})
	}
	p.Body = append(p.Body, rep)
	return p
}

func scenarioC01(rc *RunCtx) {
	t := rc.T
	pf := failingProfile(t)
	prog := GenProg(t, pf)
	if t.Chance("c01.retry_template", 6) {
		prog = retryTemplate(t)
	} else if t.Chance("c01.signal_skip_template", 4) {
		prog = signalSkipTemplate(t)
	}
	fl := genFlags(t, 40)
	cc := genClockChoice(t, fl.ShrinkTime, 4, 2, 2, 6, 1)
	name := genName(t, false)
	dir := rc.FreshDir()
	saveFault := ""
	if !fl.NoFailFile {
		switch t.Weighted("fault.save", 8, 1, 1) {
		case 1: // testdata is a regular file: MkdirAll fails
			_ = os.WriteFile(filepath.Join(dir, "testdata"), []byte("x"), 0o644)
			saveFault = "testdata_is_file"
		case 2: // read-only directory does not stop root; use a dangling symlink as testdata/rapid instead
			_ = os.MkdirAll(filepath.Join(dir, "testdata"), 0o755)
			_ = os.Symlink("/nonexistent-verif/x", filepath.Join(dir, "testdata", "rapid"))
			saveFault = "rapid_is_dangling_symlink"
		}
	}
	var pilotDir string
	if cc.Kind == ClkCut || cc.Kind == ClkStall {
		pilotDir = rc.FreshDir()
		if saveFault == "testdata_is_file" {
			_ = os.WriteFile(filepath.Join(pilotDir, "testdata"), []byte("x"), 0o644)
		}
	}
	pilot, cr := runWithClock(rc, prog, RunOpt{Name: name, Dir: dir, Flags: fl, WithCtx: t.Chance("tb.ctx", 15)}, cc, pilotDir)
	notePhaseCut(rc, cr)
	rc.Sample = fmt.Sprintf("%v clock=%v verdict=%s invocations=%d\n%s", fl, cr.Clock, cr.Verdict, len(cr.W.Invs), prog)
	if pilot != nil {
		judgeC01(rc, pilot, false)
	}
	judgeC01(rc, cr, true)
	if saveFault != "" && failedVerdict(cr) {
		rc.Inc("fault.save_failed." + saveFault)
	}
	rc.Nontriv = failedVerdict(cr)
	rc.Key = MixSeed(HashString(prog.String()), fl.Seed, uint64(fl.Checks), uint64(fl.ShrinkTime), uint64(cr.Clock.Kind), uint64(cr.Clock.K), uint64(cr.Clock.Delta))

	// R3 by behaviour: a written fail file, fed to a fresh Check, starts with exactly the words the final replay was started with
	if failedVerdict(cr) && !fl.NoFailFile && saveFault == "" && cr.Final() != nil {
		newFiles := newFailFiles(cr)
		if len(newFiles) == 1 && t.Chance("c01.rerun", 50) {
			f2 := fl
			f2.Checks = 1
			f2.NoFailFile = true
			cr2 := RunCheck(prog, RunOpt{Name: name, Dir: dir, Flags: f2, Clock: ClockPolicy{Kind: ClkFrozen}})
			rc.Note(cr2)
			ff := cr2.ByPhase("failfile")
			if len(ff) == 0 {
				// discovery is C06's business; here only the content matters
				rc.Inc("probe.c01_rerun_no_failfile_phase")
			} else if cmpBuf(ff[0].Info.Buf, cr.Final().Info.Buf) != 0 {
				rc.V(viol("C01.R3", "failfile-words", "fail file replays words %s but the presented final test case was started with %s", bufStr(ff[0].Info.Buf), bufStr(cr.Final().Info.Buf)))
			} else {
				rc.Inc("probe.failfile_words_match")
			}
		}
	}
}

func newFailFiles(cr *CheckRun) []string {
	before := map[string]bool{}
	for _, f := range FailFilesIn(cr.SnapBefore) {
		before[f] = true
	}
	var out []string
	for _, f := range FailFilesIn(cr.SnapAfter) {
		if !before[f] {
			out = append(out, f)
		}
	}
	return out
}

// d1Sig recognises the forced-stop family narrowly: the failing reproduction recorded rejected repeat attempts.
func d1Sig(cr *CheckRun) string {
	for _, inv := range cr.W.Invs {
		if inv.Info.Persist && rejectedRepeats(inv.RecGroups) > 0 {
			return "+rejected-repeat-in-recording"
		}
	}
	return ""
}

func anyNoValidAction(cr *CheckRun) bool {
	for _, inv := range cr.W.Invs {
		if inv.NoValidAction {
			return true
		}
	}
	return false
}

func judgeC01(rc *RunCtx, cr *CheckRun, main bool) {
	w := cr.W
	if w.Overrun {
		rc.Inc("overrun")
		return
	}
	if cr.BubblePanic != "" {
		rc.V(viol("harness", "bubble-panic", "%s", cr.BubblePanic))
		return
	}
	if w.Escaped != nil {
		rc.V(viol("C01.R5", "check-crashed", "a panic escaped Check: %s [%s]", w.EscapedStr, w.EscapedStack))
		return
	}
	signalled := anySignalled(cr)
	switch cr.Verdict {
	case "flaky":
		sig := "flaky"
		if c := countGen(cr); c.sigThenSkip > 0 || cleanupOnlySignal(cr) {
			sig = "flaky+nonfatal-flag-carried-over"
		} else {
			sig += d1Sig(cr)
		}
		rc.V(viol("C01.R4", sig, "a property that is a deterministic function of its draws was called flaky: %s", oneLine(cr.VerdictText, 200)))
		return
	case "fail", "panic":
	default:
		if cr.Verdict == "other" {
			rc.V(viol("harness", "unrecognised-report", "Check reported an error in words this harness does not know: %q", oneLine(cr.VerdictText, 200)))
		} else if w.TB.failed && cr.Verdict != "onlygen" {
			rc.V(viol("C01.R5", "failed-no-verdict", "TB failed without any report"))
		}
		return
	}
	if !signalled && anyNoValidAction(cr) && strings.Contains(cr.VerdictText, "non-skipped") {
		// rapid's own documented failure: no action of a state machine was able to run
		rc.Inc("probe.no_valid_action_failure")
		return
	}
	if !signalled {
		rc.V(viol("C01.R5", "falsification-without-signal", "Check reported a falsification but no executed test case signalled a failure"))
		return
	}
	F := cr.Final()
	if F == nil {
		rc.V(viol("C01.R1", "no-final-replay", "failure reported but the final test case was never replayed"))
		return
	}
	rc.Inc("probe.failing_run_judged")
	if n := len(cr.ByPhase("confirm")); n > 0 {
		rc.Inc("probe.minimization_accepted_steps")
	}
	ds := decidingSignal(F)
	if ds == nil && F.NoValidAction && strings.Contains(cr.VerdictText, "non-skipped") {
		rc.Inc("probe.no_valid_action_failure")
		return
	}
	if ds == nil {
		rc.V(viol("C01.R1", "final-did-not-fail"+d1Sig(cr), "the presented final test case did not fail (ended: %s); verdict: %s", F.EndState, oneLine(cr.VerdictText, 160)))
		return
	}
	// message named in the verdict is a message the final invocation raised
	first := cr.VerdictText
	if i := strings.Index(first, "\nTo reproduce"); i >= 0 {
		first = first[:i]
	}
	if ds.Kind.HasUserMsg() {
		found := false
		for _, s := range F.Signals {
			if s.Kind.HasUserMsg() && strings.Contains(first, s.Msg) {
				found = true
			}
		}
		if !found {
			rc.V(viol("C01.R1", "message-mismatch"+d1Sig(cr), "verdict %q does not name the failure the final test case raised (%q)", oneLine(first, 200), ds.Msg))
		}
	}
	if ds.Kind.IsPanic() != (cr.Verdict == "panic") {
		rc.V(viol("C01.R1", "kind-mismatch", "verdict kind %q but the final test case failed by %v", cr.Verdict, ds.Kind))
	}
	// R2: logged draws are exactly the values the final invocation received
	if !cr.Flags.Debug {
		logged := cr.LoggedDraws(cr.VerdictSeq)
		if len(logged) == 0 && cr.drawLogInOtherWords(cr.VerdictSeq, 0, F.Draws) {
			rc.V(viol("harness", "draw-log-format-unknown", "the draws of the final test case are logged, but not as '[rapid] draw <label>: <value>' lines"))
		} else if !sameDraws(logged, F.Draws) {
			rc.V(viol("C01.R2", "draw-log-mismatch", "logged draws {%s} differ from the values the final invocation received {%s}", drawsStr(logged), drawsStr(F.Draws)))
		}
	}
	if w.StopWhy != "failnow" {
		rc.V(viol("C01.R1", "no-failnow", "failed Check returned without FailNow (stop=%s)", w.StopWhy))
	}
}

func cleanupOnlySignal(cr *CheckRun) bool {
	for _, inv := range cr.W.Invs {
		for _, s := range inv.Signals {
			if s.Where == "cleanup" && !s.Fatal {
				return true
			}
		}
	}
	return false
}

func judgeVerboseDrawLogs(rc *RunCtx, cr *CheckRun) {
	calls := cr.W.TB.Calls
	for _, inv := range cr.W.Invs {
		if inv.Custom || !inv.Info.TBLog || inv.Info.RawLog || inv.Phase == "final" {
			continue
		}
		var logged []DrawRec
		for _, c := range calls {
			if c.Seq > inv.SeqBegin && c.Seq < inv.SeqEnd && c.Method == "Logf" && strings.HasPrefix(c.Text, "[rapid] draw ") {
				rest := c.Text[len("[rapid] draw "):]
				if i := strings.Index(rest, ": "); i >= 0 {
					logged = append(logged, DrawRec{Label: rest[:i], Text: rest[i+2:]})
				}
			}
		}
		if len(logged) == 0 && cr.drawLogInOtherWords(inv.SeqBegin, inv.SeqEnd, inv.Draws) {
			rc.V(viol("harness", "draw-log-format-unknown", "the draws of invocation %d are logged, but not as '[rapid] draw <label>: <value>' lines", inv.Idx))
		} else if !sameDraws(logged, inv.Draws) {
			rc.V(viol("C11.R3", "verbose-draw-log-mismatch", "invocation %d (%s): logged {%s} vs received {%s}", inv.Idx, inv.Phase, drawsStr(logged), drawsStr(inv.Draws)))
			return
		}
	}
}

func oneLine(s string, n int) string {
	s = strings.ReplaceAll(s, "\n", " | ")
	if len(s) > n {
		s = s[:n] + "…"
	}
	return s
}

var _ = time.Second
