package h

import (
	"fmt"
	"os"
	"regexp"
	"strconv"
	"time"

	"pgregory.net/rapid"
)

// C09 — Check does the promised amount of work and never passes vacuously.

func init() { scenarios["C09"] = scenarioC09 }

var shrinkTimes = []time.Duration{0, 1, 50 * time.Millisecond, time.Second, 30 * time.Second, time.Hour}

var nearDeadline = []time.Duration{24*time.Hour - 10*time.Second, 24 * time.Hour, 25 * time.Hour, 24*time.Hour - time.Minute}

var nameAlphabet = []rune("abcXYZ019-_/\\: .*?#%&+=@!~'\"()[]{}<>|,;^$`éßñЖяΩ日本語한글😀́​ ")

var reservedNames = []string{"CON", "con", "Con", "PRN", "aux", "NUL", "COM1", "com9", "LPT1", "lpt0", "COM¹", "LPT³", "CON.txt", "CONIN$"}

func genName(t *Tape, hostile bool) string {
	if !hostile {
		return fmt.Sprintf("TestSim%d", t.Int("name.n", 0, 3))
	}
	switch t.Weighted("name.kind", 3, 2, 5) {
	case 0:
		return []string{"TestSim", "TestSim/sub", "Test Sim:x\\y", "Тест/日本語/ü", "Test.Sim*?", "TestSim/a/b/c#01", "T-_9"}[t.Pick("name.fixed", 7)]
	case 1:
		n := reservedNames[t.Pick("name.reserved", len(reservedNames))]
		if t.Chance("name.reserved_sub", 30) {
			n = "Test/" + n
		}
		return n
	}
	n := t.Int("name.len", 1, 30)
	if n%10 == 7 {
		// long names: 49, 119 or 189 runes, cut back to what still fits into a file name together with "-<timestamp>-<pid>.fail"
		n *= 7
	}
	rs := make([]rune, n)
	for i := range rs {
		rs[i] = nameAlphabet[t.Pick("name.rune", len(nameAlphabet))]
	}
	for len(string(rs)) > 200 {
		rs = rs[:len(rs)-1]
	}
	return "T" + string(rs)
}

type genCounts struct {
	valid, invalid, failed int
	sigThenSkip            int // signalled non-fatally and then skipped: falsified per C02, "skipped" per rapid — C02/C11 territory
	gen                    []*Invocation
}

func countGen(cr *CheckRun) genCounts {
	var c genCounts
	for _, inv := range cr.ByPhase("gen") {
		c.gen = append(c.gen, inv)
		switch {
		case inv.Signalled() && inv.Skipped:
			c.sigThenSkip++
		case inv.Signalled():
			c.failed++
		case inv.Returned:
			c.valid++
		default:
			c.invalid++
		}
	}
	return c
}

var reOKn = regexp.MustCompile(`OK, passed (\d+) tests`)

// scenarioC09RealT: the same counting oracle through MakeCheck on a real *testing.T sub-test of the worker (which runs
// with -test.timeout 0, i.e. WITHOUT a test deadline), outside any bubble: the deadline logic for real tests.
func scenarioC09RealT(rc *RunCtx) {
	t := rc.T
	N := []int{1, 2, 5, 20}[t.Pick("c09.real.checks", 4)]
	skipEvery := t.Int("c09.real.skip_every", 0, 4) // 0: never skips
	// "for all N": a long run of big test cases (millions of words drawn within one Check)
	volume := 0
	if t.Chance("c09.real.volume", 20) {
		N = []int{400, 1000, 1500}[t.Pick("c09.real.bigN", 3)]
		volume = 2500
		rc.Inc("probe.long_run_of_big_test_cases")
	}
	big := rapid.SliceOfN(rapid.Uint64(), volume, volume)
	fl := Flags{Checks: N, Steps: 3, Seed: 1 + t.Draw("c09.seed", 1<<32), ShrinkTime: time.Second, NoFailFile: true}
	fl.Apply()
	old, _ := os.Getwd()
	dir := rc.FreshDir()
	_ = os.Chdir(dir)
	defer os.Chdir(old)
	calls, valid := 0, 0
	passed := curT.Run("realT", rapid.MakeCheck(func(rt *rapid.T) {
		calls++
		v := rapid.IntRange(0, 1000).Draw(rt, "v")
		if volume > 0 {
			big.Draw(rt, "big")
		}
		if skipEvery > 0 && calls%(skipEvery+1) == 0 {
			rt.Skip("skip", v)
		}
		valid++
	}))
	rc.Inc("leg.real_testing_T")
	rc.Inc("checks_run")
	rc.Add("invocations", calls)
	rc.Sample = fmt.Sprintf("real *testing.T leg (no test deadline): N=%d skipEvery=%d -> %d invocations, %d valid, passed=%v", N, skipEvery, calls, valid, passed)
	rc.Tracef("%s", rc.Sample)
	rc.Key = MixSeed(uint64(N), uint64(skipEvery), fl.Seed)
	rc.Nontriv = calls > 0
	rc.MixHash(MixSeed(uint64(calls), uint64(valid)))
	if !passed {
		rc.V(viol("C09.R1", "realT-failed", "MakeCheck on a real *testing.T failed a property that is never falsified (N=%d, %d invocations, %d valid)", N, calls, valid))
		return
	}
	if valid != N {
		rc.V(viol("C09.R1", "realT-wrong-count", "MakeCheck on a real *testing.T without a deadline ran %d valid test cases, -rapid.checks=%d (%d invocations)", valid, N, calls))
	}
}

func scenarioC09(rc *RunCtx) {
	t := rc.T
	if t.Chance("c09.realT", 8) {
		scenarioC09RealT(rc)
		return
	}
	failing := t.Chance("c09.failing", 20)
	pf := &Profile{MaxStmts: 6, PSkip: 0, PRepeat: 15, PCustom: 20, PCleanup: 10, PCtx: 5, PLog: 10}
	switch t.Weighted("c09.skipmode", 3, 4, 2) {
	case 0: // never skips
	case 1:
		pf.PSkip = 40 // data dependent
	case 2:
		pf.PSkip = 90
		pf.FailCondEasy = true // conditions mostly true → (almost) always skips
	}
	if failing {
		pf.MinFail, pf.MaxFail, pf.FatalPct = 1, 2, 70
	}
	prog := GenProg(t, pf)
	checksOpts := []int{1, 0, 2, 5, 20, 100}
	fl := Flags{Checks: checksOpts[t.Pick("c09.checks", len(checksOpts))], Steps: t.Int("c09.steps", 1, 12),
		Seed: 1 + t.Draw("c09.seed", 1<<32), ShrinkTime: shrinkTimes[t.Pick("c09.shrinktime", len(shrinkTimes))],
		Verbose: t.Chance("c09.v", 15), NoFailFile: true}
	name := genName(t, false)
	dir := rc.FreshDir()

	// stale-but-valid fail files: made by really failing runs of a variant of the program, then the variant is dropped
	nStale := 0
	if !failing {
		nStale = t.Weighted("c09.stale", 6, 2, 1, 1)
	}
	for i := 0; i < nStale; i++ {
		variant := *prog
		variant.Body = append(append([]*Stmt(nil), prog.Body...), &Stmt{K: SFail, FKind: FKFatalf, Site: 7})
		vf := fl
		vf.NoFailFile = false
		vf.Checks = 5
		vf.Seed = fl.Seed + uint64(i) + 1000
		vf.ShrinkTime = 0
		// distinct simulated second per file so names differ: stall before the run
		pre := RunCheck(&variant, RunOpt{Name: name, Dir: dir, Flags: vf, Clock: ClockPolicy{Kind: ClkCut, K: 0, Delta: time.Duration(i+1) * time.Second}})
		rc.Note(pre)
	}
	staleFiles := len(FailFilesIn(Snapshot(dir)))
	if staleFiles > 0 {
		rc.Inc("probe.stale_failfile_present")
	}

	var pol ClockPolicy
	switch t.Weighted("c09.clock", 5, 3, 3) {
	case 0:
		pol = ClockPolicy{Kind: ClkFrozen}
	case 1:
		pol = ClockPolicy{Kind: ClkDrip, Sub: t.Draw("clock.sub", 1<<20)}
	case 2:
		pol = ClockPolicy{Kind: ClkCut, K: t.Int("clock.k", 0, 400), Delta: nearDeadline[t.Pick("clock.delta", len(nearDeadline))]}
		if staleFiles > 0 && t.Chance("c09.slow_replay", 50) {
			// the replays of the fail files are slow (hours), the random test cases are not
			pol = ClockPolicy{Kind: ClkCut, K: t.Int("clock.k_replay", 0, 8+6*staleFiles), Delta: []time.Duration{6 * time.Hour, 10 * time.Hour, 16 * time.Hour}[t.Pick("clock.delta_replay", 3)]}
		}
	}
	cr := RunCheck(prog, RunOpt{Name: name, Dir: dir, Flags: fl, Clock: pol, WithCtx: t.Chance("tb.ctx", 20)})
	rc.Note(cr)
	rc.Sample = fmt.Sprintf("N=%d clock=%v stale=%d failing=%v verdict=%s\n%s", fl.Checks, pol, staleFiles, failing, cr.Verdict, prog)
	judgeC09(rc, cr, fl.Checks, staleFiles)
	c := countGen(cr)
	rc.Nontriv = len(cr.W.Invs) > 0
	rc.Key = MixSeed(HashString(prog.String()), fl.Seed, uint64(fl.Checks), uint64(pol.Kind), uint64(pol.K), uint64(staleFiles))
	if c.invalid > 0 {
		rc.Inc("probe.skipped_cases")
	}
}

func judgeC09(rc *RunCtx, cr *CheckRun, N int, staleFiles int) {
	w := cr.W
	if w.Overrun || cr.BubblePanic != "" {
		return
	}
	if w.Escaped != nil {
		rc.V(viol("C09.crash", "escaped", "Check panicked: %v", w.EscapedStr))
		return
	}
	c := countGen(cr)
	if c.sigThenSkip > 0 {
		// a case that signalled a non-fatal failure and then skipped is neither "never falsified" nor cleanly
		// "the first falsified case": its treatment is judged by C02/C11, not by the counting rules here.
		rc.Inc("scope.signal_then_skip_excluded")
		return
	}
	// Early exit is rapid's answer to a deadline that is near in terms of the time its RANDOM test cases take. Simulated
	// time that passed while fail files were being replayed (up to the end of the last replay) is no reason for it,
	// as long as plenty remains (24h until the deadline of a TB without one).
	var pre time.Duration
	for _, inv := range w.Invs {
		if !inv.Custom && inv.Phase == "failfile" {
			pre = inv.ElapsedAtEnd
		}
	}
	if pre > 17*time.Hour {
		pre = 0 // little remains afterwards: judged leniently as before
	}
	if pre > 0 {
		rc.Inc("fault.clock_jump_during_fail_file_replay")
	}
	nearDL := cr.SimElapsed-pre > time.Hour
	if nearDL {
		rc.Inc("fault.clock_near_deadline")
	}
	// fail-file replays come first
	seenGen := false
	for _, inv := range w.Invs {
		if inv.Custom {
			continue
		}
		if inv.Phase == "gen" || inv.Phase == "repro" {
			seenGen = true
		}
		if inv.Phase == "failfile" && seenGen {
			rc.V(viol("C09.R1", "failfile-after-random", "fail-file replay (inv %d) after a random test case", inv.Idx))
		}
	}
	if staleFiles > 0 && len(cr.ByPhase("failfile")) > 0 {
		rc.Inc("probe.failfile_replayed_first")
	}
	verdict := cr.Verdict
	if verdict == "none" && !w.TB.failed && w.StopWhy == "return" {
		verdict = "pass" // passing without saying so is passing
	}
	switch verdict {
	case "pass":
		if m := reOKn.FindStringSubmatch(cr.VerdictText); m != nil {
			rep, _ := strconv.Atoi(m[1])
			if rep != c.valid {
				rc.V(viol("C09.R1", "count-mismatch", "reported %d passed tests but %d random test cases ended normally", rep, c.valid))
			}
		}
		if c.failed > 0 {
			rc.V(viol("C09.R1", "pass-with-failure", "OK although %d cases signalled failure", c.failed))
		}
		if !nearDL {
			if c.valid != N {
				rc.V(viol("C09.R1", "wrong-count", "passed with %d valid cases, -rapid.checks=%d (invalid=%d)", c.valid, N, c.invalid))
			}
			if c.invalid > 10*N {
				rc.V(viol("C09.R2", "budget", "passed after %d skipped cases (> 10*%d)", c.invalid, N))
			}
		} else {
			rc.Inc("probe.pass_near_deadline")
			if c.valid == 0 && N > 0 {
				rc.V(viol("C09.R3", "vacuous", "passed vacuously: 0 valid cases (N=%d, early exit)", N))
			}
			if c.valid > N {
				rc.V(viol("C09.R1", "wrong-count", "passed with %d valid cases > N=%d", c.valid, N))
			}
			if c.valid < N {
				rc.Inc("probe.early_exit_taken")
			}
		}
		// no further invocation after the verdict
		for _, inv := range w.Invs {
			if cr.VerdictSeq > 0 && inv.SeqBegin > cr.VerdictSeq {
				rc.V(viol("C09.R1", "invocation-after-ok", "property invoked (inv %d) after the OK verdict", inv.Idx))
				break
			}
		}
		// the last gen invocation must be the N-th valid one
		if !nearDL && len(c.gen) > 0 && N > 0 {
			last := c.gen[len(c.gen)-1]
			if !last.Returned {
				rc.V(viol("C09.R1", "extra-invocation", "property invoked again after the %d-th valid case", N))
			}
		}
		if w.StopWhy != "return" || w.TB.failed {
			rc.V(viol("C09.R1", "pass-but-failed", "OK verdict but TB failed=%v stop=%s", w.TB.failed, w.StopWhy))
		}
	case "onlygen":
		if !nearDL {
			if c.valid >= N {
				rc.V(viol("C09.R2", "onlygen-with-enough", "'only generated' although %d valid cases >= N=%d", c.valid, N))
			}
			if c.invalid < 10*N {
				rc.V(viol("C09.R2", "budget-short", "'only generated' after only %d skipped cases (< 10*%d), valid=%d", c.invalid, N, c.valid))
			}
			rc.Inc("probe.only_generated")
		} else {
			rc.Inc("probe.onlygen_near_deadline")
			if c.valid > 0 && c.valid >= N {
				rc.V(viol("C09.R2", "onlygen-with-enough", "'only generated' although %d valid cases >= N=%d", c.valid, N))
			}
		}
		if w.StopWhy != "failnow" {
			rc.V(viol("C09.R2", "no-failnow", "'only generated' error without FailNow (stop=%s)", w.StopWhy))
		}
	case "fail", "panic", "flaky":
		// R4: after O no fresh random test case; FailNow called
		if c.failed == 0 && len(cr.ByPhase("failfile")) == 0 {
			// falsification reported without any failing gen case: C01/C11 territory, not judged here
		}
		seenFail := false
		for _, inv := range c.gen {
			if seenFail {
				rc.V(viol("C09.R4", "gen-after-failure", "fresh random test case (inv %d) generated after the first falsified one", inv.Idx))
				break
			}
			if inv.Signalled() {
				seenFail = true
			}
		}
		if w.StopWhy != "failnow" {
			rc.V(viol("C09.R4", "no-failnow", "failed Check did not stop the enclosing test (stop=%s)", w.StopWhy))
		}
		if len(cr.ByPhase("repro")) > 1 {
			rc.V(viol("C09.R4", "multi-repro", "%d reproduction runs", len(cr.ByPhase("repro"))))
		}
		rc.Inc("probe.failing_run")
	case "other":
		// an error report this harness cannot read: its vocabulary is out of date, which is trouble, not a verdict
		rc.V(viol("harness", "unrecognised-report", "Check reported an error in words this harness does not know: %q", oneLine(cr.VerdictText, 200)))
	case "none":
		rc.V(viol("C09.R1", "no-verdict", "Check ended with the test failed or stopped but without any report (stop=%s failed=%v)", w.StopWhy, w.TB.failed))
	}
}
