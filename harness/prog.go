package h

import (
	"fmt"
	"strings"
)

// Property programs: the workload. A program is a deterministic function of its draws.

type FailKind int

const (
	FKFatal FailKind = iota
	FKFatalf
	FKFailNow
	FKError
	FKErrorf
	FKFail
	FKPanicStr
	FKPanicErr
	FKPanicStruct
	FKPanicNil
	FKNilMap
	FKIndex
	FKNilDeref
	FKDivZero
	FKErrorEmpty // t.Error() with no arguments: a non-fatal failure with an empty message
	FKErrorfEmpty
	numFailKinds
)

var fkNames = [...]string{"Fatal", "Fatalf", "FailNow", "Error", "Errorf", "Fail", "panic(string)", "panic(error)", "panic(struct)", "panic(nil)", "nil-map-write", "index-out-of-range", "nil-deref", "div-by-zero", "Error()", "Errorf(\"\")"}

func (k FailKind) String() string { return fkNames[k] }
func (k FailKind) Fatal() bool {
	return !(k == FKError || k == FKErrorf || k == FKFail || k == FKErrorEmpty || k == FKErrorfEmpty)
}
func (k FailKind) IsPanic() bool { return k >= FKPanicStr && k <= FKDivZero }

// TMethod: signalled through a method of *T (sticky by design), as opposed to a panic.
func (k FailKind) TMethod() bool { return !k.IsPanic() }

// HasUserMsg: the failure carries a message chosen by the program.
func (k FailKind) HasUserMsg() bool {
	switch k {
	case FKFatal, FKFatalf, FKError, FKErrorf, FKPanicStr, FKPanicErr, FKPanicStruct:
		return true
	}
	return false
}

var nonFatalKinds = []FailKind{FKError, FKErrorf, FKFail}
var fatalKinds = []FailKind{FKFatal, FKFatalf, FKFailNow, FKPanicStr, FKPanicErr, FKPanicStruct, FKPanicNil, FKNilMap, FKIndex, FKNilDeref, FKDivZero}

type GenSpec struct {
	K    string
	A, B int
	Sub  *GenSpec
	Cust *CustomSpec
}

func (g *GenSpec) String() string {
	if g == nil {
		return "-"
	}
	s := g.K
	switch g.K {
	case "intrange", "slicen", "distinctn", "mapofn":
		s += fmt.Sprintf("(%d,%d)", g.A, g.B)
	case "smallrange", "stringn", "matching", "distinct", "perm", "sampled", "mapof", "oneof", "makepair":
		s += fmt.Sprintf("(%d)", g.A)
	}
	if g.Sub != nil {
		s += "<" + g.Sub.String() + ">"
	}
	if g.Cust != nil {
		s += g.Cust.String()
	}
	return s
}

// CustomSpec: body of a Custom generator function; returns the sum of its draws.
type CustomSpec struct {
	ID      int
	NDraw   int
	Max     int
	Vars    []int
	SkipIf  *Cond
	Cleanup bool
	Ctx     bool
	Park    bool
	FailIf  *Cond
	FKind   FailKind
	Site    int
	Body    []*Stmt // executed after the draws (C02 matrix)
}

func (c *CustomSpec) String() string {
	s := fmt.Sprintf("{n=%d max=%d", c.NDraw, c.Max)
	if c.SkipIf != nil {
		s += " skipif " + c.SkipIf.String()
	}
	if c.Cleanup {
		s += " cleanup"
	}
	if c.Ctx {
		s += " ctx"
	}
	if c.FailIf != nil {
		s += fmt.Sprintf(" %v@site%d if %v", c.FKind, c.Site, c.FailIf)
	}
	if len(c.Body) > 0 {
		var b strings.Builder
		writeBody(&b, c.Body, 2)
		s += " body:\n" + b.String()
	}
	return s + "}"
}

type CondOp int

const (
	OpGE CondOp = iota
	OpLT
	OpEQ
	OpNE
	OpMod    // feature mod M == C
	OpInvIdx // (C02 profile only) index of the property call within the run == C
	OpInvLT  // (C02 profile only) index of the property call within the run < C
	OpInvGE  // (E3 double-save workload only) index of the property call within the run >= C
	OpTrue
)

type Cond struct {
	Var int
	F   int
	Op  CondOp
	C   int64
	M   int64
}

func (c *Cond) String() string {
	v := fmt.Sprintf("v%d.f%d", c.Var, c.F)
	switch c.Op {
	case OpGE:
		return fmt.Sprintf("%s>=%d", v, c.C)
	case OpLT:
		return fmt.Sprintf("%s<%d", v, c.C)
	case OpEQ:
		return fmt.Sprintf("%s==%d", v, c.C)
	case OpNE:
		return fmt.Sprintf("%s!=%d", v, c.C)
	case OpMod:
		return fmt.Sprintf("%s%%%d==%d", v, c.M, c.C)
	case OpInvIdx:
		return fmt.Sprintf("call#==%d", c.C)
	case OpInvLT:
		return fmt.Sprintf("call#<%d", c.C)
	case OpInvGE:
		return fmt.Sprintf("call#>=%d", c.C)
	}
	return "true"
}

type StmtKind int

const (
	SDraw StmtKind = iota
	SIf
	SFail
	SSkip
	SCleanup
	SCtx
	SLog
	SRepeat
	SGoSignal
)

type Action struct {
	Name string
	Body []*Stmt
}

type Stmt struct {
	K     StmtKind
	Var   int
	Gen   *GenSpec
	Label string
	Cond  *Cond
	Body  []*Stmt
	FKind FailKind
	Site  int
	SKind int
	Park  bool
	LogK  int
	LogN  int
	Acts  []Action
	Inv   []*Stmt
	HasInv bool
	ViaSM  bool // Repeat: build the actions map with rapid.StateMachineActions (reflection) instead of a literal map
	ID    int // cleanup statement id (static)
}

type Prog struct {
	Body    []*Stmt
	NVars   int
	NSites  int
	NCustom int
	Customs []*CustomSpec
	// SiteStyle: how the failure sites of the program differ as call stacks. 0: distinct leaf functions; 1: one and
	// the same deep call chain entered from distinct lines (the distinguishing frame is ~14 frames away from the
	// panic); 2: distinct value-receiver methods of a type named "runtime", called from one line
	SiteStyle int
}

func (p *Prog) String() string {
	var b strings.Builder
	writeBody(&b, p.Body, 0)
	return b.String()
}

func writeBody(b *strings.Builder, body []*Stmt, ind int) {
	pad := strings.Repeat("  ", ind)
	for _, s := range body {
		switch s.K {
		case SDraw:
			fmt.Fprintf(b, "%sv%d := Draw(%v, %q)\n", pad, s.Var, s.Gen, s.Label)
		case SIf:
			fmt.Fprintf(b, "%sif %v {\n", pad, s.Cond)
			writeBody(b, s.Body, ind+1)
			fmt.Fprintf(b, "%s}\n", pad)
		case SFail:
			fmt.Fprintf(b, "%s%v @site%d\n", pad, s.FKind, s.Site)
		case SSkip:
			fmt.Fprintf(b, "%sSkip(%d)\n", pad, s.SKind)
		case SCleanup:
			fmt.Fprintf(b, "%sCleanup#%d {\n", pad, s.ID)
			writeBody(b, s.Body, ind+1)
			fmt.Fprintf(b, "%s}\n", pad)
		case SCtx:
			fmt.Fprintf(b, "%sCtx(park=%v)\n", pad, s.Park)
		case SLog:
			fmt.Fprintf(b, "%sLog(kind=%d,n=%d)\n", pad, s.LogK, s.LogN)
		case SRepeat:
			fmt.Fprintf(b, "%sRepeat {\n", pad)
			if s.HasInv {
				fmt.Fprintf(b, "%s  invariant:\n", pad)
				writeBody(b, s.Inv, ind+2)
			}
			for _, a := range s.Acts {
				fmt.Fprintf(b, "%s  action %s:\n", pad, a.Name)
				writeBody(b, a.Body, ind+2)
			}
			fmt.Fprintf(b, "%s}\n", pad)
		case SGoSignal:
			fmt.Fprintf(b, "%sgo %v\n", pad, s.FKind)
		}
	}
}

// ---------------------------------------------------------------------------
// Generation from the tape.

type Profile struct {
	MaxStmts    int
	MinFail     int
	MaxFail     int
	FatalPct    int // share of fail statements that are fatal
	Kinds       []FailKind // if non-nil: restrict kinds
	PSkip       int
	PRepeat     int
	PCustom     int
	PCleanup    int
	PCtx        int
	PPark       int
	PLog        int
	PGo         int
	PCleanupFail int
	PCleanupSkip int // cleanup bodies may Skip (data dependent)
	RejectHeavy bool
	Selector    int // >0: first draw is IntRange(0,99), failures additionally gated on it < Selector
	HostileLogs bool
	BigLogs     bool
	FailCondEasy bool // conditions likely true
	CustomFail  int   // percent of custom specs that can fail
	SiteStyles  bool  // programs with >= 2 failure sites may use the call-stack styles 1 and 2 (Prog.SiteStyle)
}

type progGen struct {
	t     *Tape
	pf    *Profile
	p     *Prog
	fails int
	nClean int
	selVar int
}

func GenProg(t *Tape, pf *Profile) *Prog {
	g := &progGen{t: t, pf: pf, p: &Prog{}, selVar: -1}
	var vars []int
	if pf.Selector > 0 {
		v := g.newVar()
		g.selVar = v
		g.p.Body = append(g.p.Body, &Stmt{K: SDraw, Var: v, Gen: &GenSpec{K: "intrange", A: 0, B: 99}, Label: "sel"})
	}
	if pf.RejectHeavy && t.Chance("prog.streak_prefix", 6) {
		// long rejection streaks INSIDE single draws: permutations of sizes where the unbiased integer primitive rejects
		// almost every other attempt, dozens of times per draw
		for i := 0; i < 3; i++ {
			v := g.newVar()
			vars = append(vars, v)
			g.p.Body = append(g.p.Body, &Stmt{K: SDraw, Var: v, Gen: &GenSpec{K: "perm", A: []int{36, 68, 70}[i] + t.Int("prog.streak_n", 0, 3)}, Label: ""})
		}
	}
	n := t.Int("prog.len", 2, pf.MaxStmts)
	want := t.Int("prog.fails", pf.MinFail, pf.MaxFail)
	g.p.Body = append(g.p.Body, g.body(n, &vars, 0, want, "body")...)
	for g.fails < want && g.fails < 8 {
		if len(vars) == 0 {
			g.p.Body = append(g.p.Body, g.draw(&vars))
		}
		g.p.Body = append(g.p.Body, g.condFail(vars, "body"))
	}
	g.p.NSites = g.fails
	if g.fails >= 2 && pf.SiteStyles {
		g.p.SiteStyle = t.Weighted("prog.sitestyle", 10, 2, 1)
		if g.p.SiteStyle == 2 {
			coerceKinds(g.p.Body)
			for _, c := range g.p.Customs {
				c.FKind = coerceKind(c.FKind)
				coerceKinds(c.Body)
			}
		}
	}
	return g.p
}

// coerceKind: the three failure kinds the sites of style 2 implement.
func coerceKind(k FailKind) FailKind {
	switch {
	case k.IsPanic():
		return FKPanicStr
	case k.Fatal():
		return FKFatalf
	}
	return FKErrorf
}

func coerceKinds(body []*Stmt) {
	for _, s := range body {
		if s.K == SFail {
			s.FKind = coerceKind(s.FKind)
		}
		coerceKinds(s.Body)
		coerceKinds(s.Inv)
		for i := range s.Acts {
			coerceKinds(s.Acts[i].Body)
		}
	}
}

func (g *progGen) newVar() int { v := g.p.NVars; g.p.NVars++; return v }

func (g *progGen) draw(vars *[]int) *Stmt {
	v := g.newVar()
	*vars = append(*vars, v)
	label := ""
	if g.t.Chance("draw.labelled", 60) {
		label = fmt.Sprintf("v%d", v)
		// labels are arbitrary user text: some carry a '%' (no tape draw: the decoding of existing tapes is unchanged)
		switch v % 8 {
		case 3:
			label = fmt.Sprintf("v%d%%", v)
		case 6:
			label = fmt.Sprintf("%%v%d", v)
		}
	}
	return &Stmt{K: SDraw, Var: v, Gen: g.genSpec(0), Label: label}
}

// The last two are different character classes whose printed forms share a long prefix (cache keys must not confuse them).
var lookalikePrefix = func() string {
	s := ""
	for i := 0; i < 24; i++ {
		s += fmt.Sprintf(`\x{%x}-\x{%x}`, 0x100+i*0x20, 0x10f+i*0x20)
	}
	return s
}()

var regexCatalogue = []string{`[a-c]{0,4}`, `x+y?`, `\d{1,3}`, `(ab|cd)*`, `[[:alpha:]]{2}`,
	`[` + lookalikePrefix + `\x{1000}-\x{1010}]{1,3}`,
	`[` + lookalikePrefix + `\x{2000}-\x{2010}]{1,3}`}

func (g *progGen) intSpec(depth int) *GenSpec {
	t := g.t
	w := []int{6, 6, 3, 6, 4, 3, 3, 3, 2, 2}
	if g.pf.RejectHeavy {
		w = []int{2, 3, 1, 4, 10, 2, 3, 2, 1, 1}
	}
	if depth >= 2 {
		w[4], w[5], w[6], w[7] = 0, 0, 0, 0
	}
	cust := 0
	if depth < 2 && g.pf.PCustom > 0 {
		cust = g.pf.PCustom / 8
		if cust == 0 {
			cust = 1
		}
	}
	w = append(w, cust)
	switch t.Weighted("gen.int", w...) {
	case 0:
		return &GenSpec{K: "smallrange", A: t.Int("gen.small", 1, 9)}
	case 1:
		a := t.Int("gen.lo", -20, 20)
		return &GenSpec{K: "intrange", A: a, B: a + t.Int("gen.span", 0, 1000)}
	case 2:
		return &GenSpec{K: "int"}
	case 3:
		return &GenSpec{K: "uint8"}
	case 4:
		if g.pf.CustomFail > 0 && depth < 2 && t.Chance("gen.filter_custom", 40) {
			// a Custom generator function that can signal a failure, whose value an enclosing Filter may reject
			return &GenSpec{K: "filter_even", Sub: &GenSpec{K: "custom", Cust: g.customSpec()}}
		}
		if t.Chance("gen.filter_rare", 35) {
			return &GenSpec{K: "filter_rare", Sub: g.intSpec(depth + 1)}
		}
		return &GenSpec{K: "filter_even", Sub: g.intSpec(depth + 1)}
	case 5:
		return &GenSpec{K: "map_x2", Sub: g.intSpec(depth + 1)}
	case 6:
		return &GenSpec{K: "oneof", A: t.Int("gen.just", 0, 50), Sub: g.intSpec(depth + 1)}
	case 7:
		return &GenSpec{K: "deferred", Sub: g.intSpec(depth + 1)}
	case 8:
		return &GenSpec{K: "sampled", A: t.Int("gen.nsamp", 1, 6)}
	case 9:
		return &GenSpec{K: "int64ext"}
	default:
		return &GenSpec{K: "custom", Cust: g.customSpec()}
	}
}

func (g *progGen) customSpec() *CustomSpec {
	t := g.t
	c := &CustomSpec{ID: g.p.NCustom, NDraw: t.Int("cust.n", 1, 2), Max: t.Int("cust.max", 1, 20)}
	g.p.NCustom++
	for i := 0; i < c.NDraw; i++ {
		c.Vars = append(c.Vars, g.newVar())
	}
	if t.Chance("cust.skip", 50) {
		c.SkipIf = &Cond{Var: c.Vars[0], F: 0, Op: OpMod, M: int64(t.Int("cust.skipm", 2, 4)), C: 0}
	}
	c.Cleanup = t.Chance("cust.cleanup", g.pf.PCleanup)
	c.Ctx = t.Chance("cust.ctx", g.pf.PCtx)
	if c.Ctx {
		c.Park = t.Chance("cust.park", g.pf.PPark)
	}
	if g.pf.CustomFail > 0 && g.fails < 8 && t.Chance("cust.fail", g.pf.CustomFail) {
		c.FailIf = &Cond{Var: c.Vars[len(c.Vars)-1], F: 0, Op: OpGE, C: int64(t.Int("cust.failc", 0, c.Max))}
		c.FKind = g.failKind()
		c.Site = g.fails
		g.fails++
	}
	giveup := 35
	if g.pf.CustomFail > 0 {
		giveup = 60 // ... and the function itself can fail, on a retry
	}
	if g.pf.RejectHeavy && t.Chance("cust.inner_giveup", giveup) {
		// the function ends with a draw that often gives up: the attempt is abandoned from inside a nested draw (groups that
		// never end inside a discarded one) and the Custom value is retried
		v := g.newVar()
		c.Vars = append(c.Vars, v)
		c.Body = []*Stmt{{K: SDraw, Var: v, Gen: &GenSpec{K: "filter_rare", Sub: &GenSpec{K: "smallrange", A: t.Int("cust.inner_dom", 1, 12)}}, Label: fmt.Sprintf("ci%d", c.ID)}}
	}
	g.p.Customs = append(g.p.Customs, c)
	return c
}

func (g *progGen) genSpec(depth int) *GenSpec {
	t := g.t
	w := []int{10, 2, 4, 6, 3, 4, 3, 2, 2, 2, 1}
	if g.pf.RejectHeavy {
		w = []int{6, 1, 6, 3, 2, 10, 2, 8, 1, 1, 1}
	}
	switch t.Weighted("gen.kind", w...) {
	case 0:
		return g.intSpec(depth)
	case 1:
		return &GenSpec{K: "bool"}
	case 2:
		switch t.Pick("gen.str", 4) {
		case 0:
			return &GenSpec{K: "stringn", A: t.Int("gen.maxlen", 0, 12)}
		case 1:
			return &GenSpec{K: "string"}
		case 2:
			return &GenSpec{K: "matching", A: t.Pick("gen.re", len(regexCatalogue))}
		default:
			return &GenSpec{K: "stringof"}
		}
	case 3:
		return &GenSpec{K: "sliceof", Sub: g.intSpec(depth + 1)}
	case 4:
		a := t.Int("gen.minlen", 0, 4)
		return &GenSpec{K: "slicen", A: a, B: a + t.Int("gen.lenspan", 0, 6), Sub: g.intSpec(depth + 1)}
	case 5:
		if t.Chance("gen.distinctn", 35) {
			a := t.Int("gen.dom", 0, 5)
			return &GenSpec{K: "distinctn", A: a, B: t.Int("gen.dmin", 0, a+1)}
		}
		return &GenSpec{K: "distinct", A: t.Int("gen.dom", 0, 6)}
	case 6:
		if g.pf.RejectHeavy && t.Chance("gen.bigperm", 35) {
			// sizes just above a power of two: the unbiased integer primitive rejects almost every other attempt, and
			// a permutation makes dozens of such draws (long rejection streaks inside one draw)
			return &GenSpec{K: "perm", A: []int{33, 65}[t.Pick("gen.permbase", 2)] + t.Int("gen.permextra", 0, 6)}
		}
		return &GenSpec{K: "perm", A: t.Int("gen.perm", 0, 6)}
	case 7:
		if t.Chance("gen.makemap", 35) {
			if t.Chance("gen.makepair", 50) {
				return &GenSpec{K: "makepair", A: t.Pick("gen.pairtype", 2)}
			}
			return &GenSpec{K: "makemap"}
		}
		if t.Chance("gen.mapbool", 50) {
			return &GenSpec{K: "mapbool", Sub: g.intSpec(depth + 1)}
		}
		if t.Chance("gen.mapofn", 30) {
			a := t.Int("gen.mapdom", 1, 5)
			return &GenSpec{K: "mapofn", A: a, B: t.Int("gen.mmin", 0, a+1), Sub: g.intSpec(depth + 1)}
		}
		return &GenSpec{K: "mapof", A: t.Int("gen.mapdom", 1, 8), Sub: g.intSpec(depth + 1)}
	case 8:
		return &GenSpec{K: "ptr", Sub: g.intSpec(depth + 1)}
	case 9:
		return &GenSpec{K: "float"}
	default:
		return &GenSpec{K: "slice2", Sub: &GenSpec{K: "sliceof", Sub: g.intSpec(depth + 2)}}
	}
}

func (g *progGen) cond(vars []int) *Cond {
	t := g.t
	if len(vars) == 0 {
		return &Cond{Op: OpTrue}
	}
	c := &Cond{Var: vars[t.Pick("cond.var", len(vars))], F: t.Weighted("cond.f", 3, 1)}
	consts := []int64{0, 1, 2, 3, 5, 10, 50, 100, 1000}
	if g.pf.FailCondEasy {
		consts = []int64{0, 0, 1, 1, 2}
	}
	switch t.Weighted("cond.op", 6, 2, 1, 2, 2) {
	case 0:
		c.Op = OpGE
		c.C = consts[t.Pick("cond.c", len(consts))]
	case 1:
		c.Op = OpLT
		c.C = consts[t.Pick("cond.c", len(consts))] + 1
	case 2:
		c.Op = OpEQ
		c.C = consts[t.Pick("cond.c", 5)]
	case 3:
		c.Op = OpNE
		c.C = consts[t.Pick("cond.c", 4)]
	default:
		c.Op = OpMod
		c.M = int64(t.Int("cond.m", 2, 5))
		c.C = int64(t.Int("cond.r", 0, int(c.M)-1))
	}
	return c
}

func (g *progGen) failKind() FailKind {
	t := g.t
	if g.pf.Kinds != nil {
		return g.pf.Kinds[t.Pick("fail.kind", len(g.pf.Kinds))]
	}
	if t.Chance("fail.fatal", g.pf.FatalPct) {
		return fatalKinds[t.Pick("fail.kind", len(fatalKinds))]
	}
	return nonFatalKinds[t.Pick("fail.kind", len(nonFatalKinds))]
}

func (g *progGen) failStmt() *Stmt {
	s := &Stmt{K: SFail, FKind: g.failKind(), Site: g.fails}
	g.fails++
	return s
}

func (g *progGen) condFail(vars []int, where string) *Stmt {
	var inner []*Stmt
	if g.t.Chance("fail.log", g.pf.PLog) {
		inner = append(inner, g.logStmt())
	}
	inner = append(inner, g.failStmt())
	s := &Stmt{K: SIf, Cond: g.cond(vars), Body: inner}
	if g.selVar >= 0 {
		s = &Stmt{K: SIf, Cond: &Cond{Var: g.selVar, Op: OpLT, C: int64(g.pf.Selector)}, Body: []*Stmt{s}}
	} else if g.t.Chance("fail.nest", 25) && len(vars) > 1 {
		s = &Stmt{K: SIf, Cond: g.cond(vars), Body: []*Stmt{s}}
	}
	return s
}

func (g *progGen) logStmt() *Stmt {
	t := g.t
	s := &Stmt{K: SLog}
	if g.pf.HostileLogs {
		s.LogK = t.Pick("log.kind", 7)
	}
	s.LogN = t.Int("log.n", 0, 40)
	if s.LogK == 5 {
		if g.pf.BigLogs {
			s.LogN = []int{60000, 65533, 65534, 65535, 65536, 70000, 200000, 1 << 20}[t.Pick("log.big", 8)]
		} else {
			s.LogN = t.Int("log.long", 100, 5000)
		}
	}
	return s
}

func (g *progGen) cleanupStmt(vars []int, depth int) *Stmt {
	t := g.t
	s := &Stmt{K: SCleanup, ID: g.nClean}
	g.nClean++
	n := t.Int("cleanup.len", 0, 3)
	for i := 0; i < n; i++ {
		switch t.Weighted("cleanup.stmt", 3, 3, 2, 2, g.pf.PCleanupSkip/10) {
		case 4:
			s.Body = append(s.Body, &Stmt{K: SIf, Cond: g.cond(vars), Body: []*Stmt{{K: SSkip, SKind: t.Pick("skip.kind", 3)}}})
		case 0:
			s.Body = append(s.Body, &Stmt{K: SCtx})
		case 1:
			s.Body = append(s.Body, g.logStmt())
		case 2:
			if depth < 2 {
				s.Body = append(s.Body, g.cleanupStmt(vars, depth+1))
			}
		case 3:
			if g.fails < g.pf.MaxFail && g.fails < 8 && t.Chance("cleanup.fail", g.pf.PCleanupFail) {
				s.Body = append(s.Body, &Stmt{K: SIf, Cond: g.cond(vars), Body: []*Stmt{g.failStmt()}})
			}
		}
	}
	return s
}

// action names: plain, differing only in letter case, and awkward ones (the order of actions must be a function of the names)
var actionNames = [][]string{{"A", "B", "C"}, {"get", "Get", "GET"}, {"a b", "A-b", "Ä"}}

func (g *progGen) repeatStmt(vars []int, want int) *Stmt {
	t := g.t
	s := &Stmt{K: SRepeat}
	na := t.Int("rep.nact", 1, 3)
	nameSet := t.Weighted("rep.names", 5, 2, 1)
	for i := 0; i < na; i++ {
		avars := append([]int(nil), vars...)
		var body []*Stmt
		if t.Chance("rep.skipfirst", 20) && len(avars) > 0 {
			body = append(body, &Stmt{K: SIf, Cond: g.cond(avars), Body: []*Stmt{{K: SSkip, SKind: t.Pick("skip.kind", 3)}}})
		}
		body = append(body, g.body(t.Int("rep.alen", 1, 3), &avars, 2, want, "action")...)
		s.Acts = append(s.Acts, Action{Name: actionNames[nameSet][i], Body: body})
	}
	if na == 3 && nameSet == 0 && t.Chance("rep.via_statemachine", 30) {
		s.ViaSM = true
	}
	if t.Chance("rep.inv", 60) {
		s.HasInv = true
		ivars := append([]int(nil), vars...)
		for _, a := range s.Acts {
			for _, st := range a.Body {
				if st.K == SDraw {
					ivars = append(ivars, st.Var)
				}
			}
		}
		if g.fails < want && g.fails < 8 && t.Chance("rep.invfail", 50) {
			s.Inv = append(s.Inv, &Stmt{K: SIf, Cond: g.cond(ivars), Body: []*Stmt{g.failStmt()}})
		}
	}
	return s
}

func (g *progGen) body(n int, vars *[]int, depth int, want int, where string) []*Stmt {
	t := g.t
	pf := g.pf
	var out []*Stmt
	for i := 0; i < n; i++ {
		wDraw := 10
		wFail, wSkip, wClean, wCtx, wLog, wRep, wGo := 0, 0, 0, 0, 0, 0, 0
		if len(*vars) > 0 {
			if g.fails < want {
				wFail = 8
			}
			wSkip = pf.PSkip / 5
		}
		wClean = pf.PCleanup / 5
		wCtx = pf.PCtx / 5
		wLog = pf.PLog / 5
		if depth == 0 {
			wRep = pf.PRepeat / 5
		}
		wGo = pf.PGo / 5
		switch t.Weighted("stmt.kind", wDraw, wFail, wSkip, wClean, wCtx, wLog, wRep, wGo) {
		case 0:
			out = append(out, g.draw(vars))
		case 1:
			out = append(out, g.condFail(*vars, where))
		case 2:
			out = append(out, &Stmt{K: SIf, Cond: g.cond(*vars), Body: []*Stmt{{K: SSkip, SKind: t.Pick("skip.kind", 3)}}})
		case 3:
			out = append(out, g.cleanupStmt(*vars, depth))
		case 4:
			out = append(out, &Stmt{K: SCtx, Park: t.Chance("ctx.park", pf.PPark)})
		case 5:
			out = append(out, g.logStmt())
		case 6:
			out = append(out, g.repeatStmt(*vars, want))
		case 7:
			if len(*vars) > 0 {
				out = append(out, &Stmt{K: SIf, Cond: g.cond(*vars), Body: []*Stmt{{K: SGoSignal, FKind: nonFatalKinds[t.Pick("go.kind", 3)]}}})
			} else {
				out = append(out, &Stmt{K: SGoSignal, FKind: nonFatalKinds[t.Pick("go.kind", 3)]})
			}
		}
	}
	return out
}
