//go:build e2

package h

import (
	"fmt"
	"os"
	"path/filepath"
	"regexp"
	"strings"
	"time"

	"pgregory.net/rapid"
	"pgregory.net/rapid/verifrt"
)

// C15 — a generator can be shared by concurrently running checks.

func init() { scenarios["C15"] = scenarioC15 }

type c15Spec struct {
	K   string
	A   int
	Sub *c15Spec
}

func (s *c15Spec) String() string {
	if s.Sub != nil {
		return fmt.Sprintf("%s(%d)<%v>", s.K, s.A, s.Sub)
	}
	return fmt.Sprintf("%s(%d)", s.K, s.A)
}

var c15Regexps = []string{`[a-c]{1,3}`, `\d+x?`, `(ab|cd){0,2}`, `[[:alpha:]]\w`, regexCatalogue[5], regexCatalogue[6]}

func genC15Spec(t *Tape, depth int) *c15Spec {
	w := []int{4, 3, 3, 3, 4, 4, 3, 3, 2, 2, 3, 2, 2, 2, 2, 2, 2, 2, 3}
	if depth >= 3 {
		w = []int{4, 0, 0, 0, 0, 0, 3, 3, 2, 0, 0, 2, 2, 0, 2, 2, 0, 2, 0}
	}
	switch t.Weighted("c15.kind", w...) {
	case 0:
		return &c15Spec{K: "intrange", A: t.Int("c15.a", 1, 50)}
	case 1:
		return &c15Spec{K: "filter", Sub: genC15Spec(t, depth+1)}
	case 2:
		return &c15Spec{K: "map", Sub: genC15Spec(t, depth+1)}
	case 3:
		return &c15Spec{K: "oneof", A: t.Int("c15.a", 0, 9), Sub: genC15Spec(t, depth+1)}
	case 4:
		return &c15Spec{K: "deferred", Sub: genC15Spec(t, depth+1)}
	case 5:
		return &c15Spec{K: "custom", A: t.Int("c15.a", 1, 9), Sub: genC15Spec(t, depth+1)}
	case 6:
		return &c15Spec{K: "matching", A: t.Pick("c15.re", len(c15Regexps))}
	case 7:
		return &c15Spec{K: "string"}
	case 8:
		return &c15Spec{K: "sampled", A: t.Int("c15.a", 1, 5)}
	case 9:
		return &c15Spec{K: "sliceof", Sub: genC15Spec(t, depth+1)}
	case 10:
		return &c15Spec{K: []string{"mapof", "mapofn", "mapofvalues"}[t.Pick("c15.mapkind", 3)], A: t.Int("c15.a", 1, 6), Sub: genC15Spec(t, depth+1)}
	case 11:
		return &c15Spec{K: "distinct", A: t.Int("c15.a", 1, 6)}
	case 12:
		return &c15Spec{K: "perm", A: t.Int("c15.a", 0, 5)}
	case 13:
		return &c15Spec{K: "ptr", Sub: genC15Spec(t, depth+1)}
	case 14:
		return &c15Spec{K: "float"}
	case 15:
		return &c15Spec{K: []string{"stringof", "stringn", "bytesmatching"}[t.Pick("c15.strkind", 3)], A: t.Int("c15.a", 0, 8)}
	case 16:
		return &c15Spec{K: "matching2"}
	case 18:
		// a chain of several .Filter calls on one base (from which the checks may derive further filters)
		return &c15Spec{K: "filterchain", A: t.Int("c15.chain", 2, 5), Sub: &c15Spec{K: "intrange", A: t.Int("c15.a", 20, 60)}}
	default:
		return &c15Spec{K: "make"}
	}
}

type c15Made struct {
	A int
	B string
	C []bool
	D map[uint8]int16
	E [3]int8
	F [2][]byte
}

// build creates a fresh generator expression (new objects every time) from the spec.
func (s *c15Spec) build() *rapid.Generator[any] {
	switch s.K {
	case "intrange":
		return rapid.IntRange(0, s.A).AsAny()
	case "filter":
		return s.Sub.build().Filter(func(v any) bool { return len(plain(v))%3 != 0 })
	case "filterchain":
		g := s.Sub.build()
		for i := 0; i < s.A; i++ {
			m := i + 7
			g = g.Filter(func(v any) bool { return v.(int)%m != 1 })
		}
		return g
	case "map":
		return rapid.Map(s.Sub.build(), func(v any) any { return "m(" + plain(v) + ")" })
	case "oneof":
		return rapid.OneOf(rapid.Just(any(s.A)), s.Sub.build())
	case "deferred":
		sub := s.Sub
		return rapid.Deferred(func() *rapid.Generator[any] { return sub.build() })
	case "custom":
		sub := s.Sub.build()
		a := s.A
		return rapid.Custom(func(t *rapid.T) any {
			n := rapid.IntRange(0, a).Draw(t, "n")
			return fmt.Sprintf("c(%d,%s)", n, plain(sub.Draw(t, "sub")))
		})
	case "matching":
		return rapid.StringMatching(c15Regexps[s.A]).AsAny()
	case "string":
		return rapid.String().AsAny()
	case "sampled":
		sl := make([]any, s.A)
		for i := range sl {
			sl[i] = i * 7
		}
		return rapid.SampledFrom(sl)
	case "mapof":
		return rapid.MapOf(rapid.IntRange(0, s.A), s.Sub.build()).AsAny()
	case "mapofn":
		return rapid.MapOfN(rapid.IntRange(0, s.A+2), s.Sub.build(), 1, 3).AsAny()
	case "mapofvalues":
		return rapid.MapOfValues(s.Sub.build(), func(v any) string { return plain(v) }).AsAny()
	case "distinct":
		return rapid.SliceOfDistinct(rapid.IntRange(0, s.A), rapid.ID[int]).AsAny()
	case "perm":
		sl := make([]int, s.A)
		for i := range sl {
			sl[i] = i
		}
		return rapid.Permutation(sl).AsAny()
	case "ptr":
		return rapid.Ptr(s.Sub.build(), true).AsAny()
	case "float":
		return rapid.Float64Range(-100, 100).AsAny()
	case "stringof":
		return rapid.StringOf(rapid.RuneFrom([]rune{'a', 'b', 'é', '世'})).AsAny()
	case "stringn":
		return rapid.StringN(-1, -1, s.A).AsAny()
	case "bytesmatching":
		return rapid.SliceOfBytesMatching([]string{`[a-f]{0,4}`, `\b[ab ]{1,4}\b`, `^a?\Bb*$`}[s.A%3]).AsAny()
	case "matching2":
		return rapid.OneOf(rapid.StringMatching(regexCatalogue[5]), rapid.StringMatching(regexCatalogue[6])).AsAny()
	case "make":
		return rapid.Make[c15Made]().AsAny()
	default:
		return rapid.SliceOfN(s.Sub.build(), 0, 3).AsAny()
	}
}

var reAddr = regexp.MustCompile(`0xc[0-9a-f]{6,}`)

// plain: text of a value for use INSIDE generator callbacks (filter predicates, map functions, key functions): heap
// addresses must not influence what a generator does, or the generator would not be a function of its bitstream.
func plain(v any) string { return reAddr.ReplaceAllString(fmt.Sprint(v), "PTR") }

// show formats a drawn value; heap addresses are not part of the value.
func show(v any) string { return reAddr.ReplaceAllString(fmt.Sprintf("%#v", v), "PTR") }

type c15Use struct {
	Kind int // 0 passing Check, 1 Example, 2 String, 3 sub-generator Example, 4 failing Check (minimizes)
	Seed int
}

var c15UseNames = []string{"Check", "Example", "String", "SubGenExample", "FailingCheck", "DerivedFilterCheck"}

// perform one use of g and return a log of everything it observed.
func (u c15Use) perform(g *rapid.Generator[any], id int, scheduled bool) (log string, escaped any) {
	yield := func() {
		if scheduled {
			verifrt.Yield(2000 + id)
		}
	}
	var b strings.Builder
	defer func() {
		// e.g. Example giving up on an unsatisfiable filter: part of what this use observes
		if r := recover(); r != nil {
			log = b.String() + fmt.Sprintf("!panic:%v", r)
		}
	}()
	if u.Kind == 5 {
		// every check derives its own filter from the shared generator (parity of the printed length, by check id)
		par := id % 2
		g = g.Filter(func(v any) bool { return len(plain(v))%2 == par })
	}
	switch u.Kind {
	case 0, 4, 5:
		tb := &e2TB{name: fmt.Sprintf("TestShare%d", id)}
		escaped = runGuarded(func() {
			rapid.Check(tb, func(t *rapid.T) {
				yield()
				v := g.Draw(t, "v")
				fmt.Fprintf(&b, "%s;", show(v))
				tooLong := len(fmt.Sprint(v))
				scribble(v) // a check owns what it drew
				yield()
				w := g.Draw(t, "w")
				fmt.Fprintf(&b, "%s|", show(w))
				tooLong += len(fmt.Sprint(w))
				scribble(w)
				if u.Kind == 4 && tooLong > 3 {
					t.Fatalf("too long")
				}
			})
		})
		fmt.Fprintf(&b, "=>%s", tb.verdict())
	case 1:
		yield()
		b.WriteString(show(g.Example(u.Seed)))
	case 2:
		yield()
		b.WriteString(g.String())
	case 3:
		yield()
		b.WriteString(show(rapid.SliceOfN(g, 1, 3).Example(u.Seed)))
	}
	return b.String(), escaped
}

func scenarioC15(rc *RunCtx) {
	t := rc.T
	rapid.VerifResetProcessState() // every run starts from a cold process: the schedule must not depend on earlier runs
	mon := getRaceMon()
	mon.collect()
	spec := genC15Spec(t, 0)
	maxG := 4
	if curTier == "thorough" && t.Chance("c15.deep", 25) {
		maxG = 7
	}
	nG := t.Int("c15.ng", 2, maxG)
	var uses []c15Use
	for i := 0; i < nG; i++ {
		uses = append(uses, c15Use{Kind: t.Weighted("c15.use", 4, 3, 2, 2, 2, 3), Seed: t.Int("c15.seed", 0, 1<<20)})
	}
	pol := genPolicy(t)
	fl := Flags{Checks: t.Int("c15.checks", 1, 3), Steps: 3, Seed: 1 + t.Draw("c15.rseed", 1<<30), ShrinkTime: time.Hour, NoFailFile: true}
	fl.Apply()

	if t.Chance("c15.failfiles_present", 25) {
		// every check finds (unusable) fail files of its own test: the checks load and ignore them concurrently
		dir := rc.FreshDir()
		oldwd, _ := os.Getwd()
		_ = os.Chdir(dir)
		defer os.Chdir(oldwd)
		for i := 0; i < nG; i++ {
			d := filepath.Join("testdata", "rapid", fmt.Sprintf("TestShare%d", i))
			_ = os.MkdirAll(d, 0o755)
			for k := 0; k < 3; k++ {
				body := []string{"", "garbage\x00\xff", "v9.9.9#1\n0x1\n0x2\n" + strings.Repeat("# long comment line\n", 200*(k+1))}[(i+k)%3]
				_ = os.WriteFile(filepath.Join(d, fmt.Sprintf("TestShare%d-%d.fail", i, k)), []byte(body), 0o644)
			}
		}
		rc.Inc("probe.checks_with_fail_files_present")
	}
	shared := spec.build()
	logs := make([]string, nG)
	escs := make([]any, nG)
	start := time.Now()
	s := verifrt.Begin(pol, 5000000)
	for i := 1; i < nG; i++ {
		i := i
		s.Go(func() { logs[i], escs[i] = uses[i].perform(shared, i, true) })
	}
	logs[0], escs[0] = uses[0].perform(shared, 0, true)
	s.Join()
	s.End()
	wall := time.Since(start)
	reports := mon.collect()

	var names []string
	for _, u := range uses {
		names = append(names, c15UseNames[u.Kind])
	}
	rc.Sample = fmt.Sprintf("gen=%v uses=%v policy=%s seed=%d checks=%d steps=%d", spec, names, policyNames[pol.Kind], pol.Seed, fl.Checks, s.StepCount())
	rc.Tracef("%s", rc.Sample)
	rc.Inc("policy." + policyNames[pol.Kind])
	rc.Add("sched_steps", s.StepCount())
	fp := schedFingerprint(s.Trace)
	rc.Shapes = append(rc.Shapes, fp)
	for _, u := range uses {
		rc.Inc("use." + c15UseNames[u.Kind])
	}
	rc.Nontriv = true
	rc.Key = MixSeed(fp, HashString(rc.Sample))
	if wall > 120*time.Second {
		rc.Inc("slow_runs") // real time is not part of any verdict
	}
	if s.Deadlock {
		rc.V(viol("C15.R2", "deadlock", "no simulated goroutine could run (deadlock) while sharing %v", spec))
		return
	}
	if s.Overrun {
		rc.Inc("inconclusive.step_bound_exceeded") // very long minimization; nothing is judged
		return
	}
	// R1: no data race with a rapid frame
	for _, rep := range reports {
		if !rep.InRapid {
			rc.V(viol("harness", "race-outside-rapid", "race report without a rapid frame:\n%s", oneLine(rep.Text, 1500)))
			continue
		}
		if rc.Verbose {
			rc.Tracef("%s", rep.Text)
		}
		rc.V(viol("C15.R1", "race:"+rep.Sig(), "data race on a shared generator (%v): %s %s (%s) vs %s %s (%s)", spec, rep.A.Kind, rep.A.Func, rep.A.Frame, rep.B.Kind, rep.B.Func, rep.B.Frame))
	}
	// R2: every check observed exactly what it observes alone on a fresh generator
	h := uint64(0)
	for i, u := range uses {
		solo, esc := u.perform(spec.build(), i, false)
		if fmt.Sprint(esc) != fmt.Sprint(escs[i]) {
			rc.V(viol("C15.R2", "use-crashed", "%s on the shared generator escaped with %v, alone with %v", c15UseNames[u.Kind], escs[i], esc))
			continue
		}
		h = MixSeed(h, HashString(logs[i]))
		if solo != logs[i] {
			rc.V(viol("C15.R2", "differs-from-solo:"+c15UseNames[u.Kind], "%s #%d sharing %v observed %s; alone it observes %s", c15UseNames[u.Kind], i, spec, oneLine(logs[i], 300), oneLine(solo, 300)))
		}
	}
	rc.MixHash(h)
	rc.MixHash(fp)
}
