package h

import (
	"strings"
	"bufio"
	"encoding/binary"
	"encoding/json"
	"fmt"
	"os"
	"os/exec"
	"path/filepath"
	"testing"
	"time"

	"pgregory.net/rapid"
)

// C04 — draws are a pure function of the bitstream: same bits, same test case.

func init() { scenarios["C04"] = scenarioC04 }

// resetProcessState recreates rapid's process-wide caches and package-level generators (set in builds that inject the
// helper): every C04 run then starts cold, and its warm history is exactly the warm-ups on its own tape.
var resetProcessState func()

func isColdChild() bool { return os.Getenv("VERIF_C04_CHILD") == "1" }

func scenarioC04(rc *RunCtx) {
	t := rc.T
	if resetProcessState != nil {
		resetProcessState()
	}
	pf := failingProfile(t)
	pf.RejectHeavy = t.Chance("pf.rejectheavy2", 70)
	pf.PRepeat = 35
	prog := GenProg(t, pf)
	fl := genFlags(t, 25)
	fl.Debug = false
	fl.NoFailFile = !t.Chance("c04.failfile", 35)
	fl.Short = t.Chance("flags.short", 15)
	if fl.Short && fl.Checks < 5 {
		fl.Checks = 5 + fl.Checks // under -short rapid divides the number of checks by 5
	}
	if t.Chance("c04.shrink0", 40) {
		fl.ShrinkTime = 0
	}
	cc := genClockChoice(t, fl.ShrinkTime, 6, 2, 1, 0, 0)
	name := genName(t, false)
	exSeed := t.Int("c04.exseed", 0, 1<<20)
	exSpec := (&progGen{t: t, pf: &Profile{}, p: &Prog{}}).intSpec(1)
	exSlice := &GenSpec{K: "distinct", A: t.Int("c04.exdom", 0, 6)}
	nWarm := 0
	spawnCold := false
	if !isColdChild() {
		nWarm = t.Int("c04.warmups", 0, 3)
		spawnCold = t.Chance("c04.cold", map[string]int{"quick": 6, "thorough": 12}[rc.Tier])
	}

	lookalike := -1
	if strings.Contains(prog.String(), "matching(5)") != strings.Contains(prog.String(), "matching(6)") {
		lookalike = 6
		if strings.Contains(prog.String(), "matching(6)") {
			lookalike = 5
		}
	}
	if !isColdChild() && lookalike >= 0 && t.Chance("c04.cold_lookalike", 60) {
		// one of two look-alike regexps: whether the process used the other one before must not matter
		spawnCold = true
		rc.Inc("probe.lookalike_regexp_program")
		wp := &Prog{NVars: 1, Body: []*Stmt{{K: SDraw, Var: 0, Gen: &GenSpec{K: "matching", A: lookalike}, Label: "other"}}}
		wr := RunCheck(wp, RunOpt{Name: "TestWarmLookalike", Dir: rc.FreshDir(), Flags: Flags{Checks: 2, Steps: 1, Seed: 7, NoFailFile: true}, Clock: ClockPolicy{Kind: ClkFrozen}})
		rc.SimNs += int64(wr.SimElapsed)
	}

	// prior history in this process: other checks, generators, label caches
	for i := 0; i < nWarm; i++ {
		wp := GenProg(t, failingProfile(t))
		wf := genFlags(t, 6)
		wf.NoFailFile = true
		wf.ShrinkTime = 0
		wr := RunCheck(wp, RunOpt{Name: "TestWarm", Dir: rc.FreshDir(), Flags: wf, Clock: ClockPolicy{Kind: ClkFrozen}})
		rc.SimNs += int64(wr.SimElapsed)
		rc.Inc("probe.warmup_checks")
	}

	dir := rc.FreshDir()
	a := RunCheck(prog, RunOpt{Name: name, Dir: dir, Flags: fl, Clock: cc.Resolve(0)})
	rc.Note(a)
	rc.Sample = fmt.Sprintf("%v clock=%v verdict=%s invocations=%d warmups=%d\n%s", fl, a.Clock, a.Verdict, len(a.W.Invs), nWarm, prog)
	rc.Key = MixSeed(HashString(prog.String()), fl.Seed, uint64(fl.Checks), uint64(fl.ShrinkTime))
	rc.Nontriv = failedVerdict(a)
	ex1 := exampleText(prog, exSpec, exSlice, exSeed)
	rc.MixHash(HashString(ex1))
	if a.W.Overrun {
		return
	}
	judgeC04(rc, a)

	// R1: same seed, second execution in another bubble (after the first one warmed every cache)
	b := RunCheck(prog, RunOpt{Name: name, Dir: rc.FreshDir(), Flags: fl, Clock: cc.Resolve(0)})
	rc.SimNs += int64(b.SimElapsed)
	if !b.W.Overrun {
		ga, gb := randomInvs(a), randomInvs(b)
		if len(ga) != len(gb) {
			rc.V(viol("C04.R1", "seed-run-differs", "same -rapid.seed=%d: %d vs %d random test cases", fl.Seed, len(ga), len(gb)))
		} else {
			for i := range ga {
				if DrawLog(ga[i]) != DrawLog(gb[i]) {
					rc.V(viol("C04.R1", "seed-draws-differ", "same -rapid.seed=%d: test case %d drew {%s} vs {%s}", fl.Seed, i, drawsStr(ga[i].Draws), drawsStr(gb[i].Draws)))
					break
				}
			}
		}
	}
	if ex2 := exampleText(prog, exSpec, exSlice, exSeed); ex2 != ex1 {
		rc.V(viol("C04.R1", "example-differs", "Example(%d) gave %s and then %s", exSeed, ex1, ex2))
	}

	// restart over the same directory: the fail file replays the same values again
	if failedVerdict(a) && a.Verdict != "flaky" && !fl.NoFailFile && len(newFailFiles(a)) == 1 {
		f2 := fl
		f2.NoFailFile = true
		c := RunCheck(prog, RunOpt{Name: name, Dir: dir, Flags: f2, Clock: ClockPolicy{Kind: ClkFrozen}})
		rc.Note(c)
		ff := c.ByPhase("failfile")
		if F := a.Final(); F != nil && len(ff) > 0 {
			rc.Inc("probe.failfile_replay_compared")
			if DrawLog(ff[0]) != DrawLog(F) || ff[0].SiteKey() != F.SiteKey() {
				rc.V(viol("C04.R2", "failfile-replay-differs", "replay from the fail file drew {%s} (%s); the saved test case drew {%s} (%s)", drawsStr(ff[0].Draws), ff[0].SiteKey(), drawsStr(F.Draws), F.SiteKey()))
			}
		}
	}

	// R3: the unpruned recording through the public fuzz entry point
	if R := a.Repro(); R != nil && failedVerdict(a) && len(R.RecData) > 0 && t.Chance("c04.fuzzleg", 40) {
		judgeFuzzReplay(rc, prog, R, a.Original())
	}

	// R4: cold process vs this warm one
	if spawnCold {
		cold, err := runColdChild(rc)
		if err != nil {
			rc.V(viol("harness", "cold-child", "%v", err))
		} else {
			rc.Inc("probe.cold_process_compared")
			warm := MixSeed(a.HistoryHash(), HashString(ex1))
			if cold != warm {
				rc.V(viol("C04.R4", "history-dependent", "the same check and Example in a fresh process behave differently from this process (which ran %d other checks before): history hash %x vs %x", nWarm, cold, warm))
			}
		}
	}
	if isColdChild() {
		rc.hash = MixSeed(a.HistoryHash(), HashString(ex1))
	}
}

func randomInvs(cr *CheckRun) []*Invocation {
	var out []*Invocation
	for _, inv := range cr.W.Invs {
		if !inv.Custom && inv.Info.Random {
			out = append(out, inv)
		}
	}
	return out
}

func exampleText(p *Prog, spec, sl *GenSpec, seed int) (out string) {
	defer func() {
		// Example gives up (panics) on an unsatisfiable generator: that, too, must be the same every time
		if r := recover(); r != nil {
			out = fmt.Sprintf("!panic:%v", r)
		}
	}()
	w := NewWorld("ex", ClockPolicy{}, false)
	in := NewInterp(w, &Prog{NVars: p.NVars + 8})
	in.env = &Env{vals: make([][2]int64, p.NVars+8), set: make([]bool, p.NVars+8)}
	if spec.K == "custom" {
		spec = &GenSpec{K: "int"}
	}
	g1 := in.buildInt(spec)
	g2 := in.buildSliceInt(sl)
	return fmt.Sprintf("%#v|%#v|%q", g1.Example(seed), g2.Example(seed), rapid.StringMatching(`[a-z]{1,6}\d?`).Example(seed))
}

func judgeC04(rc *RunCtx, a *CheckRun) {
	if a.W.Escaped != nil || a.BubblePanic != "" {
		rc.V(viol("C04.crash", "escaped", "Check panicked: %s %s", a.W.EscapedStr, a.BubblePanic))
		return
	}
	// same bits, same test case: any two invocations started from identical buffers behave identically
	byBuf := map[string]*Invocation{}
	for _, inv := range a.W.Invs {
		if inv.Custom || inv.Info.Random {
			continue
		}
		k := bufStrFull(inv.Info.Buf)
		if prev, ok := byBuf[k]; ok {
			rc.Inc("probe.same_buffer_pairs")
			if DrawLog(prev) != DrawLog(inv) || prev.SiteKey() != inv.SiteKey() || prev.EndState != inv.EndState {
				rc.V(viol("C04.R2", "same-bits-differ", "invocations %d (%s) and %d (%s) were started with the same words %s but drew {%s} (%s) vs {%s} (%s)", prev.Idx, prev.Phase, inv.Idx, inv.Phase, bufStr(inv.Info.Buf), drawsStr(prev.Draws), prev.SiteKey(), drawsStr(inv.Draws), inv.SiteKey()))
				return
			}
		} else {
			byBuf[k] = inv
		}
	}
	if !failedVerdict(a) || a.Verdict == "flaky" {
		return
	}
	O, R, F := a.Original(), a.Repro(), a.Final()
	// seed replay: the reproduction run draws what the failing generated case drew
	if O != nil && R != nil && (DrawLog(O) != DrawLog(R) || O.SiteKey() != R.SiteKey()) {
		rc.V(viol("C04.R1", "reproduction-differs", "reproduction from the seed drew {%s} (%s), the failing case drew {%s} (%s)", drawsStr(R.Draws), R.SiteKey(), drawsStr(O.Draws), O.SiteKey()))
	}
	// pruned replay: the presented case replays the bits recorded by the last recording run with rejected attempts removed
	var L *Invocation
	for _, inv := range a.W.Invs {
		if !inv.Custom && inv.Info.Persist {
			L = inv
		}
	}
	if L != nil && F != nil {
		rc.Inc("probe.pruned_replay_compared")
		if hasDiscards(L.RecGroups) {
			rc.Inc("probe.recording_had_rejected_attempts")
		}
		if rejectedRepeats(L.RecGroups) > 0 {
			rc.Inc("probe.recording_had_rejected_repeat_steps")
		}
		if DrawLogPruned(F) != DrawLogPruned(L) || F.SiteKey() != L.SiteKey() {
			sig := "pruned-replay-differs"
			if rejectedRepeats(L.RecGroups) > 0 {
				sig += "+rejected-repeat-in-recording"
			}
			rc.V(viol("C04.R2", sig, "replaying the recording of invocation %d (%s) with the rejected attempts removed drew {%s} (%s); as recorded (minus rejected attempts) it drew {%s} (%s)", L.Idx, L.Phase, oneLine(DrawLogPruned(F), 700), F.SiteKey(), oneLine(DrawLogPruned(L), 700), L.SiteKey()))
		}
		// and the reference pruning agrees on what "rejected attempts removed" means whenever it is applicable
		if ref := pruneRef(L.RecData, L.RecGroups); cmpBuf(ref, F.Info.Buf) == 0 {
			rc.Inc("probe.reference_prune_agrees")
		} else {
			rc.Inc("probe.reference_prune_differs")
		}
	}
}

func bufStrFull(b []uint64) string {
	bs := make([]byte, 8*len(b))
	for i, u := range b {
		binary.LittleEndian.PutUint64(bs[8*i:], u)
	}
	return string(bs)
}

// judgeFuzzReplay feeds R's unpruned recording to MakeFuzz (outside any bubble) and compares with the original case.
func judgeFuzzReplay(rc *RunCtx, prog *Prog, R, O *Invocation) {
	w := NewWorld("fuzz", ClockPolicy{Kind: ClkFrozen}, false)
	w.initChans()
	in := NewInterp(w, prog)
	in.calls = 0
	data := []byte(bufStrFull(R.RecData))
	curT.Run("fuzzleg", func(ft *testing.T) {
		rapid.MakeFuzz(in.Prop)(ft, data)
	})
	close(w.waiterFree)
	time.Sleep(time.Millisecond)
	rc.Inc("probe.fuzz_replay_compared")
	var top *Invocation
	for _, inv := range w.Invs {
		if !inv.Custom {
			top = inv
			break
		}
	}
	if top == nil {
		rc.V(viol("C04.R3", "fuzz-no-invocation", "MakeFuzz did not invoke the property"))
		return
	}
	ref := R
	if DrawLog(top) != DrawLog(ref) || top.SiteKey() != ref.SiteKey() {
		rc.V(viol("C04.R3", "raw-replay-differs", "replaying the bits exactly as recorded drew {%s} (%s); the recorded run drew {%s} (%s)", drawsStr(top.Draws), top.SiteKey(), drawsStr(ref.Draws), ref.SiteKey()))
	}
	_ = O
}

// runColdChild re-executes this run's tape in a fresh OS process and returns the history hash it computed.
func runColdChild(rc *RunCtx) (uint64, error) {
	dir := filepath.Join(rc.Dir, "cold")
	if err := os.MkdirAll(dir, 0o755); err != nil {
		return 0, err
	}
	spec := Spec{Property: "C04", Tier: rc.Tier, Out: filepath.Join(dir, "out.jsonl"), Scratch: filepath.Join(dir, "scratch"), Tapes: [][]Entry{rc.T.Out}}
	_ = os.MkdirAll(spec.Scratch, 0o755)
	sb, _ := json.Marshal(spec)
	sp := filepath.Join(dir, "spec.json")
	if err := os.WriteFile(sp, sb, 0o644); err != nil {
		return 0, err
	}
	cmd := exec.Command(os.Args[0], "-test.run", "^TestWorker$", "-test.timeout", "0", "-test.count", "1")
	cmd.Dir = dir
	cmd.Env = append(os.Environ(), "VERIF_SPEC="+sp, "VERIF_C04_CHILD=1")
	out, err := cmd.CombinedOutput()
	f, ferr := os.Open(spec.Out)
	if ferr != nil {
		return 0, fmt.Errorf("cold child: %v %v\n%s", err, ferr, out)
	}
	defer f.Close()
	sc := bufio.NewScanner(f)
	sc.Buffer(make([]byte, 1<<20), 1<<28)
	for sc.Scan() {
		var r Result
		if json.Unmarshal(sc.Bytes(), &r) == nil && r.Stats != nil {
			if r.Harness != "" {
				return 0, fmt.Errorf("cold child harness trouble: %s", r.Harness)
			}
			return r.Hash, nil
		}
	}
	return 0, fmt.Errorf("cold child produced no result: %v\n%s", err, out)
}
