package h

import (
	"os"
	"reflect"
	"errors"
	"fmt"
	"math"
	"strings"

	"pgregory.net/rapid"
)

// Interp executes a Prog as a rapid property function and records every event.

type drawFn func(t *rapid.T, label string) any

type Interp struct {
	w     *World
	p     *Prog
	gens  map[*GenSpec]drawFn
	env   *Env
	calls int // property calls so far in this run (for the C02-only OpInvIdx)
	customVar map[int]bool // variables local to Custom generator functions (never part of messages)
	PropCalls int
	OpenProbe bool // the property opens (and closes) a file before anything else
}

type Env struct {
	vals [][2]int64
	set  []bool
}

func NewInterp(w *World, p *Prog) *Interp {
	in := &Interp{w: w, p: p, gens: map[*GenSpec]drawFn{}, customVar: map[int]bool{}}
	for _, c := range p.Customs {
		for _, v := range c.Vars {
			in.customVar[v] = true
		}
	}
	in.buildAll(p.Body)
	for _, c := range p.Customs {
		in.buildAll(c.Body)
	}
	return in
}

func (in *Interp) buildAll(body []*Stmt) {
	for _, s := range body {
		if s.K == SDraw {
			in.gens[s.Gen] = in.buildAny(s.Gen)
			// statements inside the functions of Custom generators anywhere in the expression (reached through the
			// expression itself: after a round trip through JSON, Prog.Customs holds copies)
			for gs := s.Gen; gs != nil; gs = gs.Sub {
				if gs.Cust != nil {
					in.buildAll(gs.Cust.Body)
				}
			}
		}
		in.buildAll(s.Body)
		in.buildAll(s.Inv)
		for _, a := range s.Acts {
			in.buildAll(a.Body)
		}
	}
}

func box[V any](g *rapid.Generator[V]) drawFn {
	return func(t *rapid.T, label string) any { return g.Draw(t, label) }
}

func (in *Interp) buildInt(s *GenSpec) *rapid.Generator[int] {
	switch s.K {
	case "smallrange":
		return rapid.IntRange(0, s.A)
	case "intrange":
		return rapid.IntRange(s.A, s.B)
	case "int":
		return rapid.Int()
	case "uint8":
		return rapid.Map(rapid.Uint8(), func(u uint8) int { return int(u) })
	case "filter_even":
		return in.buildInt(s.Sub).Filter(func(v int) bool { return v%2 == 0 })
	case "filter_rare":
		return in.buildInt(s.Sub).Filter(func(v int) bool { return v%5 == 0 }) // ~20% acceptance: often gives up
	case "filter_never":
		return rapid.IntRange(0, 9).Filter(func(v int) bool { return false }) // always gives up: the test case is invalid
	case "map_x2":
		return rapid.Map(in.buildInt(s.Sub), func(v int) int { return v * 2 })
	case "oneof":
		return rapid.OneOf(rapid.Just(s.A), in.buildInt(s.Sub))
	case "deferred":
		sub := s.Sub
		return rapid.Deferred(func() *rapid.Generator[int] { return in.buildInt(sub) })
	case "sampled":
		sl := make([]int, s.A)
		for i := range sl {
			sl[i] = i * 3
		}
		return rapid.SampledFrom(sl)
	case "int64ext":
		return rapid.Map(rapid.Int64Range(math.MinInt64, math.MaxInt64), func(v int64) int { return int(v) })
	case "custom":
		c := s.Cust
		return rapid.Custom(func(t *rapid.T) int { return in.customFn(t, c) })
	}
	panic("harness: unknown int gen " + s.K)
}

func (in *Interp) buildSliceInt(s *GenSpec) *rapid.Generator[[]int] {
	switch s.K {
	case "sliceof":
		return rapid.SliceOf(in.buildInt(s.Sub))
	case "slicen":
		return rapid.SliceOfN(in.buildInt(s.Sub), s.A, s.B)
	case "distinct":
		return rapid.SliceOfDistinct(rapid.IntRange(0, s.A), rapid.ID[int])
	case "distinctn":
		// a minimum length close to the size of the domain: frequent "too many rejections" (the draw gives up)
		return rapid.SliceOfNDistinct(rapid.IntRange(0, s.A), s.B, s.B+2, rapid.ID[int])
	case "perm":
		sl := make([]int, s.A)
		for i := range sl {
			sl[i] = i
		}
		return rapid.Permutation(sl)
	}
	panic("harness: unknown slice gen " + s.K)
}

func (in *Interp) buildAny(s *GenSpec) drawFn {
	switch s.K {
	case "bool":
		return box(rapid.Bool())
	case "string":
		return box(rapid.String())
	case "stringn":
		return box(rapid.StringN(-1, -1, s.A))
	case "matching":
		return box(rapid.StringMatching(regexCatalogue[s.A]))
	case "stringof":
		return box(rapid.StringOf(rapid.RuneFrom([]rune{'a', 'b', 'c', 'é', '世'})))
	case "sliceof", "slicen", "distinct", "distinctn", "perm":
		return box(in.buildSliceInt(s))
	case "mapofn":
		return box(rapid.MapOfN(rapid.IntRange(0, s.A), in.buildInt(s.Sub), s.B, s.B+2))
	case "slice2":
		return box(rapid.SliceOf(in.buildSliceInt(s.Sub)))
	case "makemap":
		return box(rapid.Make[map[bool]int]()) // reflection-based generator: duplicate keys are rejected attempts
	case "makepair":
		// two distinct types with one and the same name and printed form (declared in different scopes)
		if s.A == 0 {
			return makePairA()
		}
		return makePairB()
	case "mapof":
		return box(rapid.MapOf(rapid.IntRange(0, s.A), in.buildInt(s.Sub)))
	case "mapbool":
		return box(rapid.MapOf(rapid.Bool(), in.buildInt(s.Sub)))
	case "ptr":
		return box(rapid.Ptr(in.buildInt(s.Sub), true))
	case "float":
		return box(rapid.Float64())
	}
	return box(in.buildInt(s))
}

func makePairA() drawFn {
	type pair struct {
		X int8
		Y bool
	}
	return box(rapid.Make[pair]())
}

func makePairB() drawFn {
	type pair struct {
		X []uint8
		Y int16
	}
	return box(rapid.Make[pair]())
}


//go:noinline
func (goruntime) s1(t *rapid.T, k FailKind, msg string) {
	switch k {
	case FKPanicStr:
		panic(msg)
	case FKFatalf:
		t.Fatalf("%s", msg)
	default:
		t.Errorf("%s", msg)
	}
}

//go:noinline
func (goruntime) s2(t *rapid.T, k FailKind, msg string) {
	switch k {
	case FKPanicStr:
		panic(msg)
	case FKFatalf:
		t.Fatalf("%s", msg)
	default:
		t.Errorf("%s", msg)
	}
}

//go:noinline
func (goruntime) s3(t *rapid.T, k FailKind, msg string) {
	switch k {
	case FKPanicStr:
		panic(msg)
	case FKFatalf:
		t.Fatalf("%s", msg)
	default:
		t.Errorf("%s", msg)
	}
}

//go:noinline
func (goruntime) s4(t *rapid.T, k FailKind, msg string) {
	switch k {
	case FKPanicStr:
		panic(msg)
	case FKFatalf:
		t.Fatalf("%s", msg)
	default:
		t.Errorf("%s", msg)
	}
}

//go:noinline
func (goruntime) s5(t *rapid.T, k FailKind, msg string) {
	switch k {
	case FKPanicStr:
		panic(msg)
	case FKFatalf:
		t.Fatalf("%s", msg)
	default:
		t.Errorf("%s", msg)
	}
}

//go:noinline
func (goruntime) s6(t *rapid.T, k FailKind, msg string) {
	switch k {
	case FKPanicStr:
		panic(msg)
	case FKFatalf:
		t.Fatalf("%s", msg)
	default:
		t.Errorf("%s", msg)
	}
}

//go:noinline
func (goruntime) s7(t *rapid.T, k FailKind, msg string) {
	switch k {
	case FKPanicStr:
		panic(msg)
	case FKFatalf:
		t.Fatalf("%s", msg)
	default:
		t.Errorf("%s", msg)
	}
}

// scribble overwrites everything mutable that is reachable from a drawn value: a test owns the values it draws, and
// what it does to them must not reach the generator or any later draw.
func scribble(v any) {
	if v != nil {
		scribbleRV(reflect.ValueOf(v), 0)
	}
}

func scribbleRV(rv reflect.Value, depth int) {
	if depth > 6 || !rv.IsValid() {
		return
	}
	switch rv.Kind() {
	case reflect.Interface, reflect.Pointer:
		if !rv.IsNil() {
			scribbleRV(rv.Elem(), depth+1)
		}
		if rv.Kind() == reflect.Interface && rv.CanSet() && rv.NumMethod() == 0 {
			rv.Set(reflect.ValueOf("SCRIBBLED"))
		}
	case reflect.Slice:
		for i := 0; i < rv.Len(); i++ {
			scribbleRV(rv.Index(i), depth+1)
		}
	case reflect.Map:
		for _, k := range rv.MapKeys() {
			scribbleRV(rv.MapIndex(k), depth+1)
			rv.SetMapIndex(k, reflect.Value{})
		}
	case reflect.Struct:
		for i := 0; i < rv.NumField(); i++ {
			if rv.Type().Field(i).IsExported() {
				scribbleRV(rv.Field(i), depth+1)
			}
		}
	case reflect.Int, reflect.Int8, reflect.Int16, reflect.Int32, reflect.Int64:
		if rv.CanSet() {
			rv.SetInt(-77)
		}
	case reflect.Uint, reflect.Uint8, reflect.Uint16, reflect.Uint32, reflect.Uint64:
		if rv.CanSet() {
			rv.SetUint(0x7E)
		}
	case reflect.Bool:
		if rv.CanSet() {
			rv.SetBool(!rv.Bool())
		}
	case reflect.String:
		if rv.CanSet() {
			rv.SetString("SCRIBBLED")
		}
	case reflect.Float32, reflect.Float64:
		if rv.CanSet() {
			rv.SetFloat(-7.5)
		}
	}
}

func features(v any) [2]int64 {
	switch x := v.(type) {
	case int:
		m := int64(x) % 7
		if m < 0 {
			m = -m
		}
		return [2]int64{int64(x), m}
	case bool:
		if x {
			return [2]int64{1, 1}
		}
		return [2]int64{0, 0}
	case string:
		var sum int64
		for i := 0; i < len(x); i++ {
			sum += int64(x[i])
		}
		return [2]int64{int64(len(x)), sum % 11}
	case []int:
		var sum int64
		for _, e := range x {
			sum += int64(e)
		}
		return [2]int64{int64(len(x)), sum}
	case [][]int:
		var n int64
		for _, e := range x {
			n += int64(len(e))
		}
		return [2]int64{int64(len(x)), n}
	case map[int]int:
		var sum int64
		for _, e := range x { // commutative fold: iteration order irrelevant
			sum += int64(e)
		}
		return [2]int64{int64(len(x)), sum}
	case map[bool]int:
		var sum int64
		for _, e := range x {
			sum += int64(e)
		}
		return [2]int64{int64(len(x)), sum}
	case *int:
		if x == nil {
			return [2]int64{-1, 0}
		}
		return [2]int64{int64(*x), 1}
	case float64:
		f := x
		if f != f {
			return [2]int64{0, 2}
		}
		if f > 1e18 {
			f = 1e18
		}
		if f < -1e18 {
			f = -1e18
		}
		neg := int64(0)
		if f < 0 {
			neg = 1
		}
		return [2]int64{int64(f), neg}
	}
	if rv := reflect.ValueOf(v); rv.IsValid() && rv.Kind() == reflect.Struct {
		var a, b int64
		for i := 0; i < rv.NumField(); i++ {
			switch f := rv.Field(i); f.Kind() {
			case reflect.Int8, reflect.Int16, reflect.Int:
				a += f.Int()
			case reflect.Bool:
				if f.Bool() {
					b++
				}
			case reflect.Slice:
				b += int64(f.Len())
			}
		}
		return [2]int64{a, b}
	}
	return [2]int64{0, 0}
}

// valueText formats like rapid's draw log does.
func valueText(v any) string { return fmt.Sprintf("%#v", v) }

// normText: pointer text normalised (the address is not part of the value).
func normText(v any) string {
	if p, ok := v.(*int); ok {
		if p == nil {
			return "(*int)(nil)"
		}
		return fmt.Sprintf("(*int)(&%d)", *p)
	}
	return fmt.Sprintf("%#v", v)
}

func (in *Interp) eval(c *Cond) bool {
	switch c.Op {
	case OpTrue:
		return true
	case OpInvIdx:
		return int64(in.calls-1) == c.C
	case OpInvLT:
		return int64(in.calls-1) < c.C
	case OpInvGE:
		return int64(in.calls-1) >= c.C
	}
	if c.Var >= len(in.env.set) || !in.env.set[c.Var] {
		return false
	}
	f := in.env.vals[c.Var][c.F]
	switch c.Op {
	case OpGE:
		return f >= c.C
	case OpLT:
		return f < c.C
	case OpEQ:
		return f == c.C
	case OpNE:
		return f != c.C
	case OpMod:
		m := f % c.M
		if m < 0 {
			m += c.M
		}
		return m == c.C
	}
	return false
}

func (in *Interp) envText() string {
	var b strings.Builder
	for i, ok := range in.env.set {
		if ok && !in.customVar[i] {
			fmt.Fprintf(&b, " v%d=%d/%d", i, in.env.vals[i][0], in.env.vals[i][1])
		}
	}
	return b.String()
}

// Prop is the property function handed to rapid.
func (in *Interp) Prop(t *rapid.T) {
	inv := in.w.beginInv(t, false)
	defer in.w.endInv(t, inv) // plain defer: never recovers
	in.calls++
	in.PropCalls++
	if in.OpenProbe {
		// what many real properties do first: open something
		f, err := os.Open(os.DevNull)
		if err != nil {
			t.Fatalf("the property could not open a file: %v", err)
		}
		_ = f.Close()
	}
	in.env = &Env{vals: make([][2]int64, in.p.NVars), set: make([]bool, in.p.NVars)}
	dc := 0
	in.exec(t, inv, in.p.Body, "body", &dc)
	inv.Returned = true
}

func (in *Interp) customFn(t *rapid.T, c *CustomSpec) int {
	w := in.w
	inv := w.beginInv(t, true)
	defer w.endInv(t, inv)
	sum := 0
	g := rapid.IntRange(0, c.Max)
	for i := 0; i < c.NDraw; i++ {
		v := g.Draw(t, fmt.Sprintf("c%d_%d", c.ID, i))
		inv.Draws = append(inv.Draws, DrawRec{fmt.Sprintf("c%d_%d", c.ID, i), valueText(v), c.Vars[i], normText(v), false})
		w.ev(EvDraw, inv.Idx, fmt.Sprintf("c%d_%d", c.ID, i), valueText(v), 0, true)
		in.env.vals[c.Vars[i]] = features(v)
		in.env.set[c.Vars[i]] = true
		sum += v
		if i == 0 {
			if c.Ctx {
				in.ctxSample(t, inv, c.Park, "custom")
			}
			if c.Cleanup {
				in.registerCleanup(t, inv, &Stmt{K: SCleanup, ID: 1000 + c.ID, Body: []*Stmt{{K: SCtx}}}, "custom")
			}
			if c.SkipIf != nil && in.eval(c.SkipIf) {
				inv.unwinding, inv.unwindWhere = "skip", "custom"
				inv.SkipSeq = w.ev(EvSkip, inv.Idx, "custom", "", 0, false)
				t.Skip("custom skip")
			}
		}
	}
	if c.FailIf != nil && in.eval(c.FailIf) {
		in.fail(t, inv, c.FKind, c.Site, "custom")
	}
	if len(c.Body) > 0 {
		dc := -1
		in.exec(t, inv, c.Body, "custom", &dc)
	}
	inv.Returned = true
	return sum
}

func (in *Interp) ctxSample(t *rapid.T, inv *Invocation, park bool, where string) {
	w := in.w
	c := t.Context()
	live := c.Err() == nil
	seq := w.ev(EvCtxSample, inv.Idx, where, "", len(inv.Ctxs), live)
	inv.Ctxs = append(inv.Ctxs, CtxRec{Ctx: c, Where: where, Seq: seq, InCleanup: where == "cleanup"})
	if park && where != "cleanup" {
		w.WaitersMade++
		inv.WaitersParked++
		go func() {
			select {
			case <-c.Done():
				w.waiterDone <- 1
			case <-w.waiterFree:
				w.waiterDone <- 0
			}
		}()
	}
}

func (in *Interp) registerCleanup(t *rapid.T, inv *Invocation, s *Stmt, where string) {
	w := in.w
	id := w.nextClean
	w.nextClean++
	inv.CleanReg = append(inv.CleanReg, id)
	w.ev(EvCleanupReg, inv.Idx, where, "", id, true)
	body := s.Body
	t.Cleanup(func() {
		inv.CleanRun = append(inv.CleanRun, id)
		onStack := false
		for _, st := range w.stack {
			onStack = onStack || st == inv
		}
		if !onStack {
			// the call has returned, its cleanup functions still belong to it: what a Custom generator function drawn from
			// here signals is a signal of this invocation
			saved, savedCur := w.stack, w.cur
			w.stack = append(append([]*Invocation(nil), w.stack...), inv)
			w.cur = inv
			defer func() { w.stack, w.cur = saved, savedCur }()
		}
		// every context obtained during the call must already be cancelled
		allCancelled := true
		for _, c := range inv.Ctxs {
			if !c.InCleanup && c.Ctx.Err() == nil {
				allCancelled = false
			}
		}
		w.ev(EvCleanupRun, inv.Idx, where, "", id, allCancelled)
		defer w.ev(EvCleanupEnd, inv.Idx, where, "", id, true)
		dc := -1
		in.exec(t, inv, body, "cleanup", &dc)
	})
}

func (in *Interp) exec(t *rapid.T, inv *Invocation, body []*Stmt, where string, dc *int) {
	w := in.w
	for _, s := range body {
		if where != "cleanup" {
			// executing a statement means nothing the interpreter raised earlier is still unwinding
			inv.unwinding = ""
		}
		switch s.K {
		case SDraw:
			label := s.Label
			fn := in.gens[s.Gen]
			if fn == nil {
				// a bug of this interpreter must never look like a failure of the program it runs
				if curRC != nil {
					curRC.V(viol("harness", "interpreter-bug", "no generator was built for the draw of v%d (%v)", s.Var, s.Gen))
				}
				panic("harness: interpreter bug: no generator built for a draw statement")
			}
			v := fn(t, label)
			if label == "" {
				label = fmt.Sprintf("#%d", *dc)
			}
			*dc++
			txt := valueText(v)
			inv.Draws = append(inv.Draws, DrawRec{label, txt, s.Var, normText(v), false})
			w.ev(EvDraw, inv.Idx, label, normText(v), s.Var, true)
			in.env.vals[s.Var] = features(v)
			in.env.set[s.Var] = true
			scribble(v)
		case SIf:
			if in.eval(s.Cond) {
				in.exec(t, inv, s.Body, where, dc)
			}
		case SFail:
			in.fail(t, inv, s.FKind, s.Site, where)
		case SSkip:
			inv.unwinding, inv.unwindWhere = "skip", where
			inv.SkipSeq = w.ev(EvSkip, inv.Idx, where, "", s.SKind, false)
			switch s.SKind {
			case 0:
				t.Skip("skip", in.envText())
			case 1:
				t.Skipf("skipf%s", in.envText())
			default:
				t.SkipNow()
			}
		case SCleanup:
			in.registerCleanup(t, inv, s, where)
		case SCtx:
			in.ctxSample(t, inv, s.Park, where)
			if where != "cleanup" && len(inv.Ctxs) > 0 && inv.Ctxs[len(inv.Ctxs)-1].Ctx.Err() != nil {
				// what a real property does with its context: it relies on it being live during the call
				in.fail(t, inv, FKFatalf, 7, where)
			}
		case SLog:
			in.doLog(t, inv, s)
		case SRepeat:
			acts := map[string]func(*rapid.T){}
			for i := range s.Acts {
				a := s.Acts[i]
				if !s.ViaSM && len(in.env.set) > 0 && in.env.set[0] && in.env.vals[0][0]%3 == 1 {
					// the set of action names may depend on what the test case drew before (same number of actions, same
					// order, other names): nothing learnt about the actions of one test case may be used for another
					a.Name += "2"
				}
				acts[a.Name] = func(t *rapid.T) {
					inv.unwinding = ""
					drawsBefore := len(inv.Draws) + 1
					savedVals := append([][2]int64(nil), in.env.vals...)
					savedSet := append([]bool(nil), in.env.set...)
					completed := false
					defer func() {
						if completed {
							inv.stepStart = len(inv.Draws)
						} else if inv.unwinding != "fatal" && len(inv.Draws) > drawsBefore {
							// drew and then skipped (or a later generator gave up): the whole step (with the attempts
							// skipped before it) is a rejected attempt, pruned from recordings
							for i := inv.stepStart; i < len(inv.Draws); i++ {
								inv.Draws[i].Rejected = true
							}
							inv.stepStart = len(inv.Draws)
						}
						if !completed && inv.unwinding != "fatal" {
							// a skipped action (own Skip, or a generator giving up) must leave no trace in the state
							// (its draws are removed from the bitstream)
							copy(in.env.vals, savedVals)
							copy(in.env.set, savedSet)
						}
						// plain defer (no recover): classify how this action try ended
						if !completed && inv.unwinding != "fatal" && len(inv.Draws) == drawsBefore {
							inv.actTries++ // skipped without completing a draw (own Skip, or a generator giving up)
						} else {
							inv.actTries = 0
						}
					}()
					inv.Actions = append(inv.Actions, a.Name)
					inv.Draws = append(inv.Draws, DrawRec{"action", fmt.Sprintf("%#v", a.Name), -1, fmt.Sprintf("%#v", a.Name), false})
					w.ev(EvAction, inv.Idx, a.Name, "", 0, true)
					*dc++
					in.exec(t, inv, a.Body, "action", dc)
					completed = true
				}
			}
			if s.HasInv {
				ib := s.Inv
				acts[""] = func(t *rapid.T) {
					inv.unwinding = ""
					w.ev(EvAction, inv.Idx, "", "", 0, true)
					in.exec(t, inv, ib, "invariant", dc)
				}
			}
			if s.ViaSM {
				// the same actions through the reflection-based constructor (methods A, B, C and Check of a state machine type)
				chk := acts[""]
				if chk == nil {
					chk = func(*rapid.T) {}
				}
				acts = rapid.StateMachineActions(&progSM{a: acts["A"], b: acts["B"], c: acts["C"], check: chk})
			}
			func() {
				inv.inRepeat++
				inv.stepStart = len(inv.Draws)
				ok := false
				defer func() {
					if ok {
						inv.inRepeat--
						inv.unwinding = ""
					} else if inv.unwinding == "skip" && inv.unwindWhere == "action" {
						// a skip raised inside an action never leaves Repeat by itself (the action is merely not counted);
						// whatever is unwinding through here was raised by rapid
						inv.unwinding = ""
					}
				}()
				t.Repeat(acts)
				ok = true
			}()
		case SGoSignal:
			msg := fmt.Sprintf("go-%v:%s", s.FKind, in.envText())
			seq := w.ev(EvSignal, inv.Idx, s.FKind.String(), "goroutine", -1, false)
			inv.Signals = append(inv.Signals, SignalRec{s.FKind, -1, "goroutine", false, msg, seq})
			done := make(chan struct{})
			k := s.FKind
			go func() {
				defer close(done)
				switch k {
				case FKError:
					t.Error(msg)
				case FKErrorf:
					t.Errorf("%s", msg)
				case FKErrorEmpty:
					t.Error()
				case FKErrorfEmpty:
					t.Errorf("")
				default:
					t.Fail()
				}
			}()
			<-done
		}
	}
}

func (in *Interp) logText(s *Stmt) string {
	switch s.LogK {
	case 0:
		return "log" + in.envText()
	case 1:
		return ""
	case 2:
		r := NewRNG(uint64(s.LogN) + 77)
		b := make([]byte, s.LogN)
		for i := range b {
			b[i] = byte(r.Next())
		}
		return string(b)
	case 3:
		return "0x1234\nv0.4.8#5\n0xffffffffffffffff\n0x0"
	case 4:
		return "# v0.4.8#1\n#\n0x5"
	case 5:
		return strings.Repeat("L", s.LogN)
	default:
		return "cr\rnul\x00bad\xff\xfeutf8\r\n\n\n  0x7  \n"
	}
}

func (in *Interp) doLog(t *rapid.T, inv *Invocation, s *Stmt) {
	txt := in.logText(s)
	in.w.ev(EvLog, inv.Idx, "", "", len(txt), true)
	if s.LogN%2 == 0 {
		t.Log(txt)
	} else {
		t.Logf("%s", txt)
	}
}

type progErr struct{ msg string }

func (e progErr) Error() string { return e.msg }

type progStruct struct {
	Msg  string
	Site int
}

func (in *Interp) fail(t *rapid.T, inv *Invocation, k FailKind, site int, where string) {
	msg := fmt.Sprintf("S%d/%v:%s", site, k, in.envText())
	seq := in.w.ev(EvSignal, inv.Idx, k.String(), where, site, k.Fatal())
	inv.Signals = append(inv.Signals, SignalRec{k, site, where, k.Fatal(), msg, seq})
	for _, st := range in.w.stack {
		if st != inv {
			// a signal on the T of a Custom generator function is a signal of the enclosing invocation too
			st.Signals = append(st.Signals, SignalRec{k, site, where, k.Fatal(), msg, seq})
		}
	}
	if k.Fatal() {
		for _, st := range in.w.stack {
			st.unwinding, st.unwindWhere = "fatal", where
		}
		inv.unwinding, inv.unwindWhere = "fatal", where
	}
	switch in.p.SiteStyle {
	case 1:
		// same frames from the panic up to and including this function; only the line of the call differs
		switch site {
		case 0:
			deepFail(13, t, k, msg)
		case 1:
			deepFail(13, t, k, msg)
		case 2:
			deepFail(13, t, k, msg)
		case 3:
			deepFail(13, t, k, msg)
		case 4:
			deepFail(13, t, k, msg)
		case 5:
			deepFail(13, t, k, msg)
		case 6:
			deepFail(13, t, k, msg)
		default:
			deepFail(13, t, k, msg)
		}
		return
	case 2:
		if site > 7 {
			site = 7
		}
		rtSites[site](t, k, msg) // one line for all sites: the callee is the only difference
		return
	}
	switch site {
	case 0:
		site0(t, k, msg)
	case 1:
		site1(t, k, msg)
	case 2:
		site2(t, k, msg)
	case 3:
		site3(t, k, msg)
	case 4:
		site4(t, k, msg)
	case 5:
		site5(t, k, msg)
	case 6:
		site6(t, k, msg)
	default:
		site7(t, k, msg)
	}
}

// Distinct Go functions = distinct call stacks = distinct failure sites in the sense of C05.

//go:noinline
func site0(t *rapid.T, k FailKind, msg string) { doFail(t, k, msg) }

//go:noinline
func site1(t *rapid.T, k FailKind, msg string) { doFail(t, k, msg) }

//go:noinline
func site2(t *rapid.T, k FailKind, msg string) { doFail(t, k, msg) }

//go:noinline
func site3(t *rapid.T, k FailKind, msg string) { doFail(t, k, msg) }

//go:noinline
func site4(t *rapid.T, k FailKind, msg string) { doFail(t, k, msg) }

//go:noinline
func site5(t *rapid.T, k FailKind, msg string) { doFail(t, k, msg) }

//go:noinline
func site6(t *rapid.T, k FailKind, msg string) { doFail(t, k, msg) }

//go:noinline
func site7(t *rapid.T, k FailKind, msg string) { doFail(t, k, msg) }

var zeroInt = 0

//go:noinline
func deepFail(n int, t *rapid.T, k FailKind, msg string) {
	if n > 0 {
		deepFail(n-1, t, k, msg)
		return
	}
	doFail(t, k, msg)
}

// a user type whose name ends in "runtime": its frames read "<pkg>.goruntime.s3"
type goruntime struct{}

var rtSites = [8]func(*rapid.T, FailKind, string){goruntime{}.s0, goruntime{}.s1, goruntime{}.s2, goruntime{}.s3, goruntime{}.s4, goruntime{}.s5, goruntime{}.s6, goruntime{}.s7}

//go:noinline
func (goruntime) s0(t *rapid.T, k FailKind, msg string) {
	switch k {
	case FKPanicStr:
		panic(msg)
	case FKFatalf:
		t.Fatalf("%s", msg)
	default:
		t.Errorf("%s", msg)
	}
}

//go:noinline
func doFail(t *rapid.T, k FailKind, msg string) {
	switch k {
	case FKFatal:
		t.Fatal(msg)
	case FKFatalf:
		t.Fatalf("%s", msg)
	case FKFailNow:
		t.FailNow()
	case FKError:
		t.Error(msg)
	case FKErrorf:
		t.Errorf("%s", msg)
	case FKFail:
		t.Fail()
	case FKPanicStr:
		panic(msg)
	case FKPanicErr:
		panic(error(progErr{msg}))
	case FKPanicStruct:
		panic(progStruct{msg, 0})
	case FKPanicNil:
		panic(nil)
	case FKNilMap:
		var m map[string]int
		m[msg] = 1
	case FKIndex:
		var s []int
		_ = s[len(msg)]
	case FKNilDeref:
		var p *progStruct
		_ = p.Msg
	case FKDivZero:
		_ = len(msg) / zeroInt
	case FKErrorEmpty:
		t.Error()
	case FKErrorfEmpty:
		t.Errorf("")
	}
}

var _ = errors.New

// progSM: a state machine type for rapid.StateMachineActions; B takes the TB interface (both method shapes are accepted).
type progSM struct {
	a, b, c, check func(*rapid.T)
}

func (m *progSM) A(t *rapid.T)     { m.a(t) }
func (m *progSM) B(t rapid.TB)     { m.b(t.(*rapid.T)) }
func (m *progSM) C(t *rapid.T)     { m.c(t) }
func (m *progSM) Check(t *rapid.T) { m.check(t) }

// rapidVersionLine: the "version#seed" line of a fail file written by the rapid under test.
func rapidVersionLine() string { return rapid.VerifVersion() + "#1" }
