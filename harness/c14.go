//go:build e2

package h

import (
	"context"
	"fmt"
	"sort"
	"strings"
	"time"

	"github.com/anishathalye/porcupine"
	"pgregory.net/rapid"
	"pgregory.net/rapid/verifrt"
)

// C14 — T's non-drawing methods are safe to call from many goroutines.

func init() { scenarios["C14"] = scenarioC14 }

const (
	opHelper = iota
	opName
	opLog
	opLogf
	opError
	opErrorf
	opFail
	opFailed
	opContext
	opCleanup
	numOps
	opFatal = numOps // only ever the last operation of the property's own goroutine (it does not return)
)

var opNames = [...]string{"Helper", "Name", "Log", "Logf", "Error", "Errorf", "Fail", "Failed", "Context", "Cleanup", "Fatalf"}

func isSignal(k int) bool { return k == opError || k == opErrorf || k == opFail || k == opFatal }

type opRec struct {
	G        int
	K        int
	Call     int
	Ret      int
	OutBool  bool
	OutCtx   context.Context
	CtxLive  bool
	OutName  string
	CleanID  int
}

type c14Inv struct {
	logs      [][]opRec // per simulated goroutine; each goroutine appends only to its own element
	cleanReg  []int     // merged after the join
	cleanRan  []int
	cleanCtxLive int
	deadlock  bool
	overrun   bool
	steps     int
	tryFails  int
	fp        uint64
	ctxs      []context.Context
	inner     bool
}

type c14Run struct {
	ops     [][]int
	invs    []*c14Inv
	pol     verifrt.Policy
	nextClean int
	nested  bool
	inRepeat bool // the main goroutine performs its operations as state-machine actions (rapid re-checks the failed flag after each)
	lateJoin bool // the goroutines are joined by the first-registered cleanup: they keep calling *T methods while rapid runs the cleanups
	fatalEnd bool // (lateJoin only) the property's own goroutine ends the call with Fatalf while the others still run
}

func (r *c14Run) runOps(t *rapid.T, inv *c14Inv, g int, ops []int) {
	for i, k := range ops {
		verifrt.Yield(1000 + g) // harness-level scheduling point before every *T method
		rec := opRec{G: g, K: k, Call: verifrt.Tick()}
		switch k {
		case opHelper:
			t.Helper()
		case opName:
			rec.OutName = t.Name()
		case opLog:
			t.Log("g", g, "op", i)
		case opLogf:
			t.Logf("g%d op%d", g, i)
		case opError:
			t.Error("sig", g, i)
		case opErrorf:
			t.Errorf("sig g%d op%d", g, i)
		case opFail:
			t.Fail()
		case opFailed:
			rec.OutBool = t.Failed()
		case opContext:
			c := t.Context()
			rec.OutCtx = c
			rec.CtxLive = c.Err() == nil
		case opCleanup:
			id := g*100 + i
			rec.CleanID = id
			nested := r.nested && i%2 == 0
			t.Cleanup(func() {
				inv.cleanRan = append(inv.cleanRan, id)
				if t.Context().Err() == nil {
					inv.cleanCtxLive++
				}
				for _, c := range inv.ctxs {
					if c.Err() == nil {
						inv.cleanCtxLive++
					}
				}
				if nested {
					nid := id + 50
					inv.cleanReg = append(inv.cleanReg, nid)
					t.Cleanup(func() { inv.cleanRan = append(inv.cleanRan, nid) })
				}
			})
		}
		rec.Ret = verifrt.Tick()
		inv.logs[g] = append(inv.logs[g], rec)
	}
}

// section runs one concurrent episode on t.
func (r *c14Run) section(t *rapid.T, inner bool) {
	inv := &c14Inv{logs: make([][]opRec, len(r.ops)), inner: inner}
	pol := r.pol
	pol.Seed += uint64(len(r.invs)) * 7919
	r.invs = append(r.invs, inv)
	s := verifrt.Begin(pol, 4000)
	finish := func() {
		s.Join()
		s.End()
		inv.deadlock, inv.overrun, inv.steps, inv.tryFails = s.Deadlock, s.Overrun, s.StepCount(), s.TryFails
		inv.fp = schedFingerprint(s.Trace)
		for _, l := range inv.logs {
			for _, o := range l {
				if o.K == opCleanup {
					inv.cleanReg = append(inv.cleanReg, o.CleanID)
				}
				if o.K == opContext {
					inv.ctxs = append(inv.ctxs, o.OutCtx)
				}
			}
		}
	}
	if r.lateJoin {
		// registered first, so it runs last: until then the goroutines run concurrently with rapid's cleanup phase
		t.Cleanup(finish)
	}
	for g := 1; g < len(r.ops); g++ {
		g := g
		s.Go(func() { r.runOps(t, inv, g, r.ops[g]) })
	}
	if r.inRepeat {
		k := 0
		t.Repeat(map[string]func(*rapid.T){
			"op": func(t *rapid.T) {
				r.runOps(t, inv, 0, []int{r.ops[0][k%len(r.ops[0])]})
				k++
			},
			"": func(t *rapid.T) { verifrt.Yield(1000) },
		})
	} else {
		r.runOps(t, inv, 0, r.ops[0])
		if r.fatalEnd {
			verifrt.Yield(1000)
			inv.logs[0] = append(inv.logs[0], opRec{G: 0, K: opFatal, Call: verifrt.Tick(), Ret: 1 << 40}) // never returns
			t.Fatalf("fatal end of the call")
		}
	}
	if !r.lateJoin {
		finish()
	}
}

type c14State struct {
	Failed bool
	Ctx    int
}

type c14In struct {
	K int
}
type c14Out struct {
	B   bool
	Ctx int
}

var c14Model = porcupine.Model{
	Init: func() interface{} { return c14State{} },
	Step: func(state, input, output interface{}) (bool, interface{}) {
		st := state.(c14State)
		in := input.(c14In)
		out := output.(c14Out)
		switch in.K {
		case opError, opErrorf, opFail, opFatal:
			st.Failed = true
			return true, st
		case opFailed:
			return out.B == st.Failed, st
		case opContext:
			if st.Ctx == 0 {
				st.Ctx = out.Ctx
				return out.Ctx != 0, st
			}
			return out.Ctx == st.Ctx, st
		}
		return true, st
	},
	Equal: func(a, b interface{}) bool { return a.(c14State) == b.(c14State) },
}

func scenarioC14(rc *RunCtx) {
	t := rc.T
	rapid.VerifResetProcessState() // every run starts from a cold process: the schedule must not depend on earlier runs
	mon := getRaceMon()
	mon.collect() // anything written before this run is not ours
	maxG, maxOps := 4, 6
	if curTier == "thorough" && t.Chance("c14.deep", 25) {
		maxG, maxOps = 7, 10
	}
	nG := t.Int("c14.ng", 1, maxG)
	sigPct := []int{0, 8, 20}[t.Weighted("c14.sigpct", 3, 4, 2)]
	r := &c14Run{pol: genPolicy(t), nested: t.Chance("c14.nested_cleanup", 40), lateJoin: t.Chance("c14.late_join", 30), inRepeat: t.Chance("c14.in_repeat", 25)}
	if r.inRepeat {
		r.lateJoin = true // rapid may end the call (failed flag seen after an action) while the goroutines still run: join in a cleanup
	}
	nsig := 0
	if r.lateJoin && !r.inRepeat && t.Chance("c14.fatal_end", 30) {
		r.fatalEnd = true
		nsig++
	}
	for g := 0; g <= nG; g++ {
		n := t.Int("c14.nops", 1, maxOps)
		var ops []int
		for i := 0; i < n; i++ {
			var k int
			if t.Chance("c14.sig", sigPct) {
				k = opError + t.Pick("c14.sigkind", 3)
				nsig++
			} else {
				k = []int{opHelper, opName, opLog, opLogf, opFailed, opContext, opCleanup, opContext, opCleanup, opFailed}[t.Pick("c14.op", 10)]

			}
			ops = append(ops, k)
		}
		r.ops = append(r.ops, ops)
	}
	useCustom := t.Chance("c14.custom", 25)
	fl := Flags{Checks: t.Int("c14.checks", 1, 3), Steps: 3, Seed: 1 + t.Draw("c14.seed", 1<<30), ShrinkTime: time.Hour, NoFailFile: true, Verbose: t.Chance("c14.v", 40)}
	fl.Apply()
	tb := &e2TB{name: "TestE2"}
	custom := rapid.Custom(func(ct *rapid.T) int {
		v := rapid.IntRange(0, 9).Draw(ct, "c")
		r.section(ct, true)
		return v
	})
	prop := func(pt *rapid.T) {
		x := rapid.IntRange(0, 100).Draw(pt, "x")
		_ = x
		if useCustom {
			custom.Draw(pt, "cust")
		} else {
			r.section(pt, false)
		}
	}
	start := time.Now()
	escaped := runGuarded(func() { rapid.Check(tb, prop) })
	wall := time.Since(start)
	reports := mon.collect()

	var desc []string
	for g, ops := range r.ops {
		var s []string
		for _, k := range ops {
			s = append(s, opNames[k])
		}
		desc = append(desc, fmt.Sprintf("g%d:[%s]", g, strings.Join(s, " ")))
	}
	if r.fatalEnd {
		rc.Inc("probe.call_ended_by_fatalf_while_goroutines_run")
	}
	rc.Sample = fmt.Sprintf("policy=%s seed=%d custom=%v lateJoin=%v fatalEnd=%v inRepeat=%v v=%v checks=%d ops=%s verdict=%s sections=%d", policyNames[r.pol.Kind], r.pol.Seed, useCustom, r.lateJoin, r.fatalEnd, r.inRepeat, fl.Verbose, fl.Checks, strings.Join(desc, " "), tb.verdict(), len(r.invs))
	if r.lateJoin {
		rc.Inc("probe.goroutines_running_during_cleanup_phase")
	}
	rc.Tracef("%s", rc.Sample)
	rc.Inc("policy." + policyNames[r.pol.Kind])
	rc.Inc("verdict." + tb.verdict())
	rc.Add("sections", len(r.invs))
	h := uint64(0)
	for _, inv := range r.invs {
		rc.Add("sched_steps", inv.steps)
		rc.Shapes = append(rc.Shapes, inv.fp)
		h = MixSeed(h, inv.fp, uint64(inv.steps))
		if inv.tryFails > 0 {
			rc.Inc("probe.trylock_failed_sections")
		}
	}
	rc.MixHash(h)
	rc.MixHash(HashString(tb.verdict()))
	rc.Nontriv = len(r.invs) > 0 && nG >= 1
	rc.Key = MixSeed(h, HashString(rc.Sample))
	if wall > 20*time.Second {
		rc.Inc("slow_runs") // real time is not part of any verdict
	}

	// R1: no data race with a rapid frame
	for _, rep := range reports {
		if !rep.InRapid {
			rc.V(viol("harness", "race-outside-rapid", "race report without a rapid frame:\n%s", oneLine(rep.Text, 1500)))
			continue
		}
		rc.V(viol("C14.R1", "race:"+rep.Sig(), "data race: %s %s (%s) vs %s %s (%s)", rep.A.Kind, rep.A.Func, rep.A.Frame, rep.B.Kind, rep.B.Func, rep.B.Frame))
	}
	if escaped != nil {
		rc.V(viol("C14.R3", "check-crashed", "Check panicked: %v", escaped))
		return
	}
	// R3a: conservation of the verdict
	want := "pass"
	if nsig > 0 {
		want = "fail"
	}
	if r.inRepeat {
		// how many of the main goroutine's operations run depends on the drawn number of steps, and where rapid notices the
		// failed flag depends on the schedule (so "flaky" is a legitimate report here): judge by what was executed
		executed, bySpawned := false, false
		for _, inv := range r.invs {
			for g, l := range inv.logs {
				for _, o := range l {
					if isSignal(o.K) {
						executed = true
						if g > 0 {
							bySpawned = true
						}
					}
				}
			}
		}
		v := tb.verdict()
		switch {
		case bySpawned && v != "fail" && v != "flaky":
			rc.V(viol("C14.R3", "verdict:"+v+"-want-fail", "goroutines signalled a failure in every invocation, Check reported %q", v))
		case !executed && v != "pass":
			rc.V(viol("C14.R3", "verdict:"+v+"-want-pass", "no failure was signalled, Check reported %q (%v)", v, tb.errs))
		case executed && v == "pass":
			rc.V(viol("C14.R3", "verdict:pass-want-fail", "a failure was signalled, Check reported %q", v))
		}
	} else if v := tb.verdict(); v != want {
		rc.V(viol("C14.R3", "verdict:"+v+"-want-"+want, "%d failure signals from goroutines per invocation, Check reported %q (%v)", nsig, v, tb.errs))
	}
	for i, inv := range r.invs {
		// R4
		if inv.deadlock {
			rc.V(viol("C14.R4", "deadlock", "section %d: no simulated goroutine could run (deadlock)", i))
			return
		}
		if inv.overrun {
			rc.V(viol("harness", "sched-overrun", "section %d exceeded the step bound", i))
			return
		}
		// R3b: cleanups exactly once
		reg := append([]int(nil), inv.cleanReg...)
		ran := append([]int(nil), inv.cleanRan...)
		sort.Ints(reg)
		sort.Ints(ran)
		if fmt.Sprint(reg) != fmt.Sprint(ran) {
			rc.V(viol("C14.R3", "cleanup-lost-or-duplicated", "section %d: cleanups registered %v, run %v", i, reg, ran))
			return
		}
		if inv.cleanCtxLive > 0 {
			rc.V(viol("C14.R3", "context-live-in-cleanup", "section %d: a context was still live while cleanups ran", i))
			return
		}
		// R3c: one and the same context, live during the call, cancelled afterwards. With goroutines running into the
		// cleanup phase (lateJoin) a Context() call may legitimately return an already cancelled context; but every context
		// that was live when it was handed out is THE context of the invocation.
		var live []context.Context
		for _, l := range inv.logs {
			for _, o := range l {
				if o.K == opContext && o.CtxLive {
					live = append(live, o.OutCtx)
				}
			}
		}
		for _, c := range live {
			if c != live[0] && rc.Verbose {
				for g, l := range inv.logs {
					for _, o := range l {
						rc.Tracef("  section %d g%d %s call=%d ret=%d live=%v ctx=%p", i, g, opNames[o.K], o.Call, o.Ret, o.CtxLive, o.OutCtx)
					}
				}
			}
			if c != live[0] {
				rc.V(viol("C14.R3", "two-contexts", "section %d: goroutines observed different live contexts within one invocation", i))
				return
			}
		}
		for _, c := range inv.ctxs {
			if !r.lateJoin && c != inv.ctxs[0] {
				rc.V(viol("C14.R3", "two-contexts", "section %d: goroutines observed different contexts within one invocation", i))
				return
			}
			if c.Err() == nil {
				rc.V(viol("C14.R3", "context-not-cancelled", "section %d: context still live after Check returned", i))
				return
			}
		}
		// R2: linearizability of the recorded invoke/return history against the sequential model of T
		var hist []porcupine.Operation
		ctxID := map[context.Context]int{}
		nctx := 0
		for _, l := range inv.logs {
			for _, o := range l {
				if o.K == opContext && !o.CtxLive && (!r.lateJoin || o.G == 0) {
					rc.V(viol("C14.R3", "context-dead-during-call", "section %d: T.Context() returned a cancelled context during the call", i))
					return
				}
				if o.K == opContext && r.lateJoin {
					continue // the sequential model's "one context" does not span the cleanup phase
				}
				out := c14Out{B: o.OutBool}
				if o.K == opContext {
					if _, ok := ctxID[o.OutCtx]; !ok {
						nctx++
						ctxID[o.OutCtx] = nctx
					}
					out.Ctx = ctxID[o.OutCtx]
				}
				if o.K == opName && o.OutName != "TestE2" {
					rc.V(viol("C14.R3", "name", "Name() returned %q", o.OutName))
				}
				hist = append(hist, porcupine.Operation{ClientId: o.G, Input: c14In{o.K}, Call: int64(o.Call), Output: out, Return: int64(o.Ret)})
			}
		}
		if len(hist) > 0 && len(hist) <= 40 && i < 6 {
			res := porcupine.CheckOperationsTimeout(c14Model, hist, 10*time.Second)
			switch res {
			case porcupine.Illegal:
				rc.V(viol("C14.R2", "not-linearizable", "section %d: history of %d operations is not linearizable against the sequential model of T", i, len(hist)))
				return
			case porcupine.Unknown:
				rc.Inc("probe.porcupine_inconclusive")
			default:
				rc.Inc("histories_linearizable")
			}
		}
	}
}
