package h

import (
	"fmt"
	"strings"
	"time"

	"pgregory.net/rapid"
)

// Shared pieces of the E1 scenarios.

func genShrinkTime(t *Tape) time.Duration {
	return shrinkTimes[t.Weighted("flags.shrinktime", 3, 1, 2, 2, 3, 2)]
}

func genFlags(t *Tape, maxChecks int) Flags {
	return Flags{
		Checks:     t.Int("flags.checks", 1, maxChecks),
		Steps:      t.Int("flags.steps", 1, 12),
		Seed:       1 + t.Draw("flags.seed", 1<<40),
		ShrinkTime: genShrinkTime(t),
		NoFailFile: !t.Chance("flags.failfile_on", 40),
		Verbose:    t.Chance("flags.v", 15),
		Debug:      t.Chance("flags.debug", 5),
	}
}

// clockChoice is what the tape decides before the length of the run is known.
type clockChoice struct {
	Kind  ClockKind
	Sub   uint64
	Frac  int // CUT/STALL: position as a fraction (per 4096) of the frozen run's harness-call count
	Delta time.Duration
}

func genClockChoice(t *Tape, shrinkTime time.Duration, wFrozen, wDrip, wHeavy, wCut, wStall int) clockChoice {
	var c clockChoice
	c.Kind = ClockKind(t.Weighted("clock.kind", wFrozen, wDrip, wHeavy, wCut, wStall))
	switch c.Kind {
	case ClkDrip, ClkHeavy:
		c.Sub = t.Draw("clock.sub", 1<<20)
	case ClkCut:
		c.Frac = int(t.Draw("clock.frac", 4095))
		deltas := []time.Duration{shrinkTime, shrinkTime - 1, shrinkTime + 1, 24*time.Hour - 10*time.Second, 24 * time.Hour, 25 * time.Hour, shrinkTime / 2, 24*time.Hour - 10*time.Second - shrinkTime}
		c.Delta = deltas[t.Pick("clock.delta", len(deltas))]
		if c.Delta <= 0 {
			c.Delta = 1
		}
	case ClkStall:
		c.Frac = int(t.Draw("clock.frac", 4095))
		c.Delta = time.Duration(1+t.Int("clock.stall_h", 0, 30)) * time.Hour
	}
	return c
}

// Resolve turns a choice into a policy given the harness-call count of the same run under FROZEN.
func (c clockChoice) Resolve(frozenCalls int) ClockPolicy {
	p := ClockPolicy{Kind: c.Kind, Sub: c.Sub, Delta: c.Delta}
	if c.Kind == ClkCut || c.Kind == ClkStall {
		if frozenCalls < 1 {
			frozenCalls = 1
		}
		p.K = c.Frac * frozenCalls / 4096
	}
	return p
}

// runWithClock runs the program under the chosen clock; for CUT/STALL a FROZEN pilot run determines the run length
// so that cuts land uniformly over the whole history. Both runs are returned (pilot may be nil).
func runWithClock(rc *RunCtx, p *Prog, o RunOpt, c clockChoice, pilotDir string) (pilot, cr *CheckRun) {
	if c.Kind == ClkCut || c.Kind == ClkStall {
		po := o
		po.Clock = ClockPolicy{Kind: ClkFrozen}
		if pilotDir != "" {
			po.Dir = pilotDir
		}
		pilot = RunCheck(p, po)
		rc.Note(pilot)
		o.Clock = c.Resolve(pilot.W.clk.calls)
	} else {
		o.Clock = c.Resolve(0)
	}
	cr = RunCheck(p, o)
	rc.Note(cr)
	return pilot, cr
}

// notePhaseCut records in which phase of Check a clock jump landed (fault placement evidence).
func notePhaseCut(rc *RunCtx, cr *CheckRun) {
	if cr.W.clk.Jumps == 0 {
		return
	}
	k := cr.Clock.K
	// find the invocation whose begin tick was harness call k or the phase active then
	calls := 0
	phase := "before-first-invocation"
	_ = calls
	for _, inv := range cr.W.Invs {
		if inv.Custom {
			continue
		}
		phase = inv.Phase
		if inv.tickIdx >= k {
			break
		}
	}
	rc.Inc("fault.cut_in_phase." + phase)
}

// shortlex comparison of word buffers.
func cmpBuf(a, b []uint64) int {
	if len(a) != len(b) {
		if len(a) < len(b) {
			return -1
		}
		return 1
	}
	for i := range a {
		if a[i] != b[i] {
			if a[i] < b[i] {
				return -1
			}
			return 1
		}
	}
	return 0
}

func bufStr(b []uint64) string {
	var s strings.Builder
	s.WriteString("[")
	for i, u := range b {
		if i > 0 {
			s.WriteString(" ")
		}
		if i >= 24 {
			fmt.Fprintf(&s, "…(%d words)", len(b))
			break
		}
		fmt.Fprintf(&s, "%x", u)
	}
	s.WriteString("]")
	return s.String()
}

// pruneRef is an independent reference implementation of "remove the bits of rejected attempts":
// drop every closed group marked discard (outermost first), return the remaining words.
func pruneRef(data []uint64, groups []rapid.VerifGroup) []uint64 {
	keep := make([]bool, len(data))
	for i := range keep {
		keep[i] = true
	}
	for _, g := range groups {
		if g.Discard && g.End >= 0 {
			for i := g.Begin; i < g.End && i < len(keep); i++ {
				keep[i] = false
			}
		}
	}
	var out []uint64
	for i, k := range keep {
		if k {
			out = append(out, data[i])
		}
	}
	return out
}

func hasDiscards(groups []rapid.VerifGroup) bool {
	for _, g := range groups {
		if g.Discard {
			return true
		}
	}
	return false
}

// forcedStopLikely: the recording contains a repeat group that was rejected (the precondition of a forced stop).
func rejectedRepeats(groups []rapid.VerifGroup) int {
	n := 0
	for _, g := range groups {
		if g.Discard && strings.HasSuffix(g.Label, "@repeat") {
			n++
		}
	}
	return n
}

func anySignalled(cr *CheckRun) bool {
	for _, inv := range cr.W.Invs {
		if inv.Signalled() {
			return true
		}
	}
	return false
}

func sameDraws(a, b []DrawRec) bool {
	if len(a) != len(b) {
		return false
	}
	for i := range a {
		if a[i].Label != b[i].Label || a[i].Text != b[i].Text {
			return false
		}
	}
	return true
}

func drawsStr(d []DrawRec) string {
	var b strings.Builder
	for i, x := range d {
		if i > 0 {
			b.WriteString("; ")
		}
		if i >= 12 {
			fmt.Fprintf(&b, "…(%d draws)", len(d))
			break
		}
		t := x.Text
		if len(t) > 60 {
			t = t[:60] + "…"
		}
		fmt.Fprintf(&b, "%s=%s", x.Label, t)
	}
	return b.String()
}

// decidingSignal: the fatal signal if there is one, else the last non-fatal one.
func decidingSignal(inv *Invocation) *SignalRec {
	if f := inv.FatalSignal(); f != nil {
		return f
	}
	if len(inv.Signals) > 0 {
		return &inv.Signals[len(inv.Signals)-1]
	}
	return nil
}

func failedVerdict(cr *CheckRun) bool {
	return cr.Verdict == "fail" || cr.Verdict == "panic" || cr.Verdict == "flaky"
}
