package h

import (
	"strings"
	"syscall"
	"runtime"
	"bufio"
	"encoding/json"
	"os"
	"testing"
	"time"
)

func TestChildCheck(t *testing.T) {
	if os.Getenv("VERIF_CHILD_SPEC") == "" {
		t.Skip("not a child")
	}
	childMain(t)
}

func TestWorker(t *testing.T) {
	path := os.Getenv("VERIF_SPEC")
	if path == "" {
		t.Skip("VERIF_SPEC not set")
	}
	b, err := os.ReadFile(path)
	if err != nil {
		t.Fatal(err)
	}
	var spec Spec
	if err := json.Unmarshal(b, &spec); err != nil {
		t.Fatal(err)
	}
	if scenarios[spec.Property] == nil {
		t.Fatalf("no scenario for %q", spec.Property)
	}
	curT = t
	if !raceEnabled {
		// a run that balloons must crash this worker with a stack trace (harness trouble with a culprit), not invite the
		// kernel's OOM killer to pick a victim
		lim := syscall.Rlimit{Cur: 10 << 30, Max: 10 << 30}
		_ = syscall.Setrlimit(syscall.RLIMIT_AS, &lim)
	}
	f, err := os.Create(spec.Out)
	if err != nil {
		t.Fatal(err)
	}
	defer f.Close()
	bw := bufio.NewWriter(f)
	defer func() {
		// completion marker: sub-tests of the MakeFuzz leg fail by design, so the exit status says nothing
		bw.WriteString("{\"done\":true}\n")
		bw.Flush()
	}()
	enc := json.NewEncoder(bw)
	emergency = func(v Violation) {
		rc := curRC
		res := Result{Idx: curIdx, Viols: append(rc.Viols, v), Stats: rc.Stats, Shapes: rc.Shapes, Hash: rc.hash, Sample: rc.Sample, Nontriv: true, Key: rc.Key, Tape: rc.T.Out, Trace: strings.Join(rc.Trace, "\n")}
		if res.Stats == nil {
			res.Stats = map[string]int{}
		}
		_ = enc.Encode(res)
		bw.WriteString("{\"done\":true}\n")
		bw.Flush()
		f.Close()
		os.Exit(0)
	}
	if spec.Tapes != nil {
		for i, tp := range spec.Tapes {
			res := runOne(&spec, i, ReplayTape(tp))
			_ = enc.Encode(res)
		}
		return
	}
	start := time.Now()
	stride := spec.Stride
	if stride <= 0 {
		stride = 1
	}
	done := 0
	for idx := spec.Lo; idx < spec.Hi; idx += stride {
		if spec.BudgetS > 0 && time.Since(start).Seconds() > spec.BudgetS {
			break
		}
		if spec.MaxRuns > 0 && done >= spec.MaxRuns {
			break // bounded process lifetime: the testing package keeps per-bubble records alive
		}
		if done%64 == 63 {
			var ms runtime.MemStats
			runtime.ReadMemStats(&ms)
			if ms.HeapInuse > 3<<30 {
				break
			}
		}
		done++
		tape := NewTape(MixSeed(spec.Seed, HashString(spec.Property), uint64(idx)))
		tape.Idx = idx
		res := runOne(&spec, idx, tape)
		_ = enc.Encode(res)
		bw.Flush()
	}
}
