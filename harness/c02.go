package h

import (
	"fmt"
	"strings"
	"testing"
	"time"

	"pgregory.net/rapid"
)

// C02 — no falsification is lost: every failure signal fails the enclosing test.
// The kind x context x position matrix is enumerated over run indices; seed, clock, flags are sampled around each cell.

func init() { scenarios["C02"] = scenarioC02 }

var c02Contexts = []string{"body", "action", "invariant", "custom", "cleanup-of-body", "cleanup-of-action", "cleanup-of-custom", "goroutine"}
var c02Positions = []string{"first-case", "after-k-passes", "after-k-skips", "every-case", "last-case", "before-skip", "data-dependent", "then-skip-in-cleanup", "only-in-first-fail-file-replay", "after-skip-in-cleanup"}

type c02Cell struct {
	kind FailKind
	ctx  int
	pos  int
}

var c02Cells = func() []c02Cell {
	var out []c02Cell
	for k := FailKind(0); k < numFailKinds; k++ {
		for c := range c02Contexts {
			for p := range c02Positions[:9] {
				if c == 7 && k.Fatal() {
					continue // fatal calls only from the property's own goroutine
				}
				if p == 5 && (k.Fatal() || c == 2 || c == 4 || c == 5 || c == 6) {
					continue // "signal, then Skip" needs a non-fatal signal in a context that may skip
				}
				if p == 8 && c == 7 {
					continue
				}
				if p == 7 && (!k.TMethod() || c == 7) {
					continue // a later Skip (from a cleanup) superseding the unwinding: *T-method signals are sticky by design
				}
				out = append(out, c02Cell{k, c, p})
			}
		}
	}
	// appended later (the order of the cells above is left as it was): the signal comes from a cleanup function that runs
	// AFTER a later-registered cleanup function has raised a Skip - the later failure must win over the earlier skip
	for k := FailKind(0); k < numFailKinds; k++ {
		for _, c := range []int{4, 5, 6} {
			out = append(out, c02Cell{k, c, 9})
		}
	}
	return out
}()

// scenarioC02Random: generated programs (non-fatal signals followed by arbitrary later statements: Custom draws, state
// machines, cleanups, skips) under the same conservation oracle — what happens AFTER a signal must not un-signal it.
func scenarioC02Random(rc *RunCtx) {
	t := rc.T
	pf := failingProfile(t)
	pf.FatalPct = 25
	pf.PCustom = 60
	pf.PRepeat = 35
	pf.PCleanup = 30
	pf.PCleanupFail = 40
	pf.CustomFail = 30
	pf.PGo = 15
	pf.MaxStmts = 10
	prog := GenProg(t, pf)
	fl := genFlags(t, 12)
	fl.Debug = false
	cc := genClockChoice(t, fl.ShrinkTime, 6, 2, 1, 0, 0)
	cr := RunCheck(prog, RunOpt{Name: genName(t, false), Dir: rc.FreshDir(), Flags: fl, Clock: cc.Resolve(0), WithCtx: t.Chance("tb.ctx", 15)})
	rc.Note(cr)
	rc.Sample = fmt.Sprintf("random-program mode %v verdict=%s\n%s", fl, cr.Verdict, prog)
	rc.Key = MixSeed(HashString(prog.String()), fl.Seed, uint64(fl.Checks))
	judgeC02(rc, cr, "random-program")
}

func scenarioC02(rc *RunCtx) {
	t := rc.T
	m := t.Enum("c02.mode", 4)
	if m == 3 {
		scenarioC02Random(rc)
		return
	}
	cell := c02Cells[t.EnumAt("c02.cell", len(c02Cells), (t.Idx/4)*3+m)]
	k := t.Int("c02.k", 1, 5)
	fl := genFlags(t, 12)
	fl.Steps = t.Int("c02.steps", 4, 12)
	fl.Debug = false
	var cond *Cond
	var pre []*Stmt
	switch cell.pos {
	case 0:
		cond = &Cond{Op: OpInvIdx, C: 0}
	case 1:
		cond = &Cond{Op: OpInvIdx, C: int64(k)}
		fl.Checks = k + t.Int("c02.extra", 1, 6)
	case 2:
		cond = &Cond{Op: OpInvIdx, C: int64(k)}
		pre = append(pre, &Stmt{K: SIf, Cond: &Cond{Op: OpInvLT, C: int64(k)}, Body: []*Stmt{{K: SSkip, SKind: t.Pick("skip.kind", 3)}}})
		fl.Checks = 1 + t.Int("c02.extra", 0, 3)
	case 3:
		cond = &Cond{Op: OpTrue}
	case 4:
		cond = &Cond{Op: OpInvIdx, C: int64(k)}
		fl.Checks = k + 1
	case 5:
		cond = &Cond{Op: OpTrue}
		if t.Chance("c02.pos5.idx", 50) {
			cond = &Cond{Op: OpInvIdx, C: int64(k)}
			fl.Checks = k + t.Int("c02.extra", 1, 6)
		}
	case 7: // the signal is followed by a Skip raised from a cleanup function registered earlier (it runs last)
		cond = &Cond{Op: OpTrue}
		if t.Chance("c02.pos7.idx", 50) {
			cond = &Cond{Op: OpInvIdx, C: int64(k)}
			fl.Checks = k + t.Int("c02.extra", 1, 6)
		}
		pre = append(pre, &Stmt{K: SCleanup, ID: 80, Body: []*Stmt{{K: SIf, Cond: cond, Body: []*Stmt{{K: SSkip, SKind: t.Pick("skip.kind", 3)}}}}})
	case 9: // signal in a cleanup function; a cleanup function registered after it (so running before it) skips
		cond = &Cond{Op: OpTrue}
		if t.Chance("c02.pos9.idx", 50) {
			cond = &Cond{Op: OpInvIdx, C: int64(k)}
			fl.Checks = k + t.Int("c02.extra", 1, 6)
		}
	case 8: // a fail file exists; the property signals only in the very first invocation of the next Check (the first replay)
		cond = &Cond{Op: OpInvIdx, C: 0}
		fl.Checks = t.Int("c02.checks8", 1, 6)
	case 6: // deterministic in the draws: the failing case is reproduced, minimized and replayed
		cond = &Cond{Var: 0, Op: OpGE, C: int64(t.Int("c02.thr", 0, 9))}
		fl.Checks = t.Int("c02.checks6", 1, 30)
	}
	sigBody := []*Stmt{{K: SFail, FKind: cell.kind, Site: 0}}
	if cell.ctx == 7 {
		sigBody = []*Stmt{{K: SGoSignal, FKind: cell.kind}}
	}
	if cell.pos == 5 {
		sigBody = append(sigBody, &Stmt{K: SSkip, SKind: t.Pick("skip.kind", 3)})
	}
	S := &Stmt{K: SIf, Cond: cond, Body: sigBody}
	p := &Prog{NVars: 4, NSites: 1}
	_ = p
	x := &Stmt{K: SDraw, Var: 0, Gen: &GenSpec{K: "smallrange", A: 9}, Label: "x"}
	body := append([]*Stmt{}, pre...)
	body = append(body, x)
	actDraw := &Stmt{K: SDraw, Var: 1, Gen: &GenSpec{K: "uint8"}, Label: "a"}
	custom := func(b []*Stmt) *Stmt {
		c := &CustomSpec{ID: 0, NDraw: 1, Max: 9, Vars: []int{2}, Body: b}
		p.Customs = append(p.Customs, c)
		p.NCustom = 1
		return &Stmt{K: SDraw, Var: 3, Gen: &GenSpec{K: "custom", Cust: c}, Label: "c"}
	}
	var skipAfter []*Stmt
	if cell.pos == 9 {
		skipAfter = []*Stmt{{K: SCleanup, ID: 81, Body: []*Stmt{{K: SIf, Cond: cond, Body: []*Stmt{{K: SSkip, SKind: t.Pick("skip.kind", 3)}}}}}}
	}
	switch cell.ctx {
	case 0, 7:
		body = append(body, S)
	case 1:
		body = append(body, &Stmt{K: SRepeat, Acts: []Action{{Name: "A", Body: []*Stmt{actDraw, S}}}})
	case 2:
		body = append(body, &Stmt{K: SRepeat, HasInv: true, Inv: []*Stmt{S}, Acts: []Action{{Name: "A", Body: []*Stmt{actDraw}}}})
	case 3:
		body = append(body, custom([]*Stmt{S}))
	case 4:
		body = append(body, &Stmt{K: SCleanup, ID: 0, Body: []*Stmt{S}})
		body = append(body, skipAfter...)
	case 5:
		body = append(body, &Stmt{K: SRepeat, Acts: []Action{{Name: "A", Body: append([]*Stmt{actDraw, {K: SCleanup, ID: 0, Body: []*Stmt{S}}}, skipAfter...)}}})
	case 6:
		body = append(body, custom(append([]*Stmt{{K: SCleanup, ID: 0, Body: []*Stmt{S}}}, skipAfter...)))
	}
	// what follows the signal must not un-signal it
	for n := t.Int("c02.trailing", 0, 3); n > 0; n-- {
		switch t.Pick("c02.trail.kind", 7) {
		case 6: // the test case is invalidated by a generator giving up, not by Skip
			body = append(body, &Stmt{K: SDraw, Var: p.NVars, Gen: &GenSpec{K: "filter_never"}, Label: "never"})
			p.NVars++
		case 0:
			body = append(body, &Stmt{K: SLog})
		case 1:
			c := &CustomSpec{ID: len(p.Customs), NDraw: 1, Max: 9, Vars: []int{p.NVars}}
			p.NVars++
			p.Customs = append(p.Customs, c)
			p.NCustom = len(p.Customs)
			body = append(body, &Stmt{K: SDraw, Var: p.NVars, Gen: &GenSpec{K: "custom", Cust: c}, Label: "tc"})
			p.NVars++
		case 2:
			body = append(body, &Stmt{K: SDraw, Var: p.NVars, Gen: &GenSpec{K: "filter_even", Sub: &GenSpec{K: "uint8"}}, Label: "tf"})
			p.NVars++
		case 3:
			body = append(body, &Stmt{K: SCtx})
		case 4:
			body = append(body, &Stmt{K: SCleanup, ID: 90 + n, Body: []*Stmt{{K: SCtx}}})
		case 5:
			body = append(body, &Stmt{K: SRepeat, HasInv: true, Inv: []*Stmt{{K: SLog}}, Acts: []Action{{Name: "Z", Body: []*Stmt{{K: SDraw, Var: p.NVars, Gen: &GenSpec{K: "uint8"}, Label: "tz"}}}}})
			p.NVars++
		}
	}
	p.Body = body
	cc := genClockChoice(t, fl.ShrinkTime, 6, 2, 1, 0, 0)
	name := genName(t, false)
	dir := rc.FreshDir()
	if cell.pos == 8 {
		// phase 1: the same program failing in every invocation writes the fail file
		*cond = Cond{Op: OpTrue}
		f1 := fl
		f1.NoFailFile = false
		f1.ShrinkTime = 0
		pre := RunCheck(p, RunOpt{Name: name, Dir: dir, Flags: f1, Clock: ClockPolicy{Kind: ClkFrozen}})
		rc.SimNs += int64(pre.SimElapsed)
		*cond = Cond{Op: OpInvIdx, C: 0}
		fl.NoFailFile = true
		if len(FailFilesIn(Snapshot(dir))) > 0 {
			rc.Inc("probe.fail_file_present_for_phase2")
		}
	}
	cellName := fmt.Sprintf("%v/%s/%s", cell.kind, c02Contexts[cell.ctx], c02Positions[cell.pos])
	if (cell.pos == 0 || cell.pos == 3) && t.Chance("c02.via_makefuzz", 12) {
		scenarioC02Fuzz(rc, p, fl, cellName)
		return
	}
	cr := RunCheck(p, RunOpt{Name: name, Dir: dir, Flags: fl, Clock: cc.Resolve(0), WithCtx: t.Chance("tb.ctx", 15)})
	rc.Note(cr)
	rc.Sample = fmt.Sprintf("cell=%s k=%d %v verdict=%s\n%s", cellName, k, fl, cr.Verdict, p)
	rc.Tracef("cell %s k=%d", cellName, k)
	rc.Key = MixSeed(HashString(cellName), uint64(k), fl.Seed, uint64(fl.Checks))
	judgeC02(rc, cr, cellName)
}

// scenarioC02Fuzz: the cell's program as a fuzz target (MakeFuzz on a real sub-test, arbitrary bytes as the bitstream):
// a failure signalled by the one test case that is executed fails the enclosing test - also when it would not be
// signalled a second time (position "first-case").
func scenarioC02Fuzz(rc *RunCtx, p *Prog, fl Flags, cellName string) {
	t := rc.T
	r := NewRNG(t.Draw("c02.fz.sub", 1<<30))
	data := make([]byte, 800)
	for i := range data {
		data[i] = byte(r.Next())
		if i%8 >= 2 {
			data[i] = 0 // small 64-bit words decode into sensible lengths and choices
		}
	}
	fl.Apply()
	w := NewWorld("fuzz", ClockPolicy{Kind: ClkFrozen}, false)
	w.initChans()
	in := NewInterp(w, p)
	cr := &CheckRun{W: w, In: in, Prog: p, Name: "fuzz"}
	failed, skipped := false, false
	curT.Run("c02fuzz", func(ft *testing.T) {
		defer func() { failed, skipped = ft.Failed(), ft.Skipped() }()
		rapid.MakeFuzz(in.Prop)(ft, data)
	})
	cr.finishWaiters(func() { time.Sleep(2 * time.Millisecond) })
	rc.Inc("leg.makefuzz")
	rc.Inc("checks_run")
	rc.Add("invocations", len(w.Invs))
	rc.Sample = fmt.Sprintf("cell=%s via MakeFuzz: %d invocations failed=%v skipped=%v\n%s", cellName, len(w.Invs), failed, skipped, p)
	rc.Key = MixSeed(HashString(cellName), HashString("fuzz"), HashString(string(data[:64])))
	rc.MixHash(uint64(len(w.Invs)))
	signalled := false
	for _, inv := range w.Invs {
		if inv.Signalled() {
			signalled = true
		}
	}
	rc.Nontriv = signalled
	if signalled && !failed {
		rc.V(viol("C02.fuzz", "signal-lost", "a fuzz input executed through MakeFuzz signalled %s, but the enclosing test is not failed (skipped=%v, %d executions)", cellName, skipped, len(w.Invs)))
	}
	if signalled {
		rc.Inc("probe.fuzz_target_signalled")
	}
}

func judgeC02(rc *RunCtx, cr *CheckRun, cellName string) {
	w := cr.W
	if w.Overrun {
		return
	}
	if w.Escaped != nil || cr.BubblePanic != "" {
		rc.V(viol("C02.crash", "escaped", "Check panicked: %s %s", w.EscapedStr, cr.BubblePanic))
		return
	}
	var sig *SignalRec
	var sigInv *Invocation
	for _, inv := range w.Invs {
		if len(inv.Signals) > 0 && sig == nil {
			sig, sigInv = &inv.Signals[0], inv
		}
	}
	if sig != nil {
		rc.Nontriv = true
		rc.Inc("probe.signal_fired")
		rc.Inc("probe.ctx." + sig.Where)
		if !w.TB.failed {
			kindClass := "fatal"
			if !sig.Fatal {
				kindClass = "non-fatal"
			}
			then := ""
			if sigInv.EndState == "skip" {
				then = "+then-skip"
			}
			rc.V(viol("C02.R1", fmt.Sprintf("lost:%s:%s%s", kindClass, sig.Where, then), "cell %s: %v was signalled in %s (invocation %d, %s phase) but the enclosing test is not failed (verdict %s)", cellName, sig.Kind, sig.Where, sigInv.Idx, sigInv.Phase, cr.Verdict))
		}
		if w.TB.failed && w.StopWhy != "failnow" {
			rc.V(viol("C02.R1", "no-failnow", "cell %s: test failed but Check returned without FailNow", cellName))
		}
	} else {
		rc.Inc("probe.signal_not_reached")
		if w.TB.failed && anyNoValidAction(cr) && strings.Contains(cr.VerdictText, "non-skipped") {
			rc.Inc("probe.no_valid_action_failure") // Repeat's own documented failure: no action was able to run
		} else if w.TB.failed && cr.Verdict != "onlygen" {
			rc.V(viol("C02.R2", "failed-without-signal", "cell %s: no test case signalled a failure (passes and skips only) but the test is failed: %s", cellName, oneLine(cr.VerdictText, 160)))
		}
	}
}
