//go:build e2

package h

import (
	"fmt"
	"go/ast"
	"go/parser"
	"go/token"
	"os"
	"path/filepath"
	"regexp"
	"sort"
	"strings"

	"pgregory.net/rapid/verifrt"
)

// Engine E2 pieces shared by C14 and C15: race-report monitor, a TB that creates no happens-before edges, policies.

// ---------------------------------------------------------------------------
// race reports (GORACE=log_path=… halt_on_error=0)

type raceMon struct {
	path string
	off  int64
	src  string
	fns  map[string][]funcSpan
}

type funcSpan struct {
	name       string
	start, end int
}

var theRaceMon *raceMon

func getRaceMon() *raceMon {
	if theRaceMon != nil {
		return theRaceMon
	}
	m := &raceMon{src: os.Getenv("VERIF_RAPID_SRC"), fns: map[string][]funcSpan{}}
	for _, kv := range strings.Fields(os.Getenv("GORACE")) {
		if strings.HasPrefix(kv, "log_path=") {
			m.path = strings.TrimPrefix(kv, "log_path=") + fmt.Sprintf(".%d", os.Getpid())
		}
	}
	theRaceMon = m
	return m
}

type raceAccess struct {
	Kind  string // read / write
	Frame string // file:line of the first frame inside rapid
	Func  string // enclosing top-level declaration
}

type raceReport struct {
	A, B  raceAccess
	Text  string
	InRapid bool
}

func (r raceReport) Sig() string {
	x := fmt.Sprintf("%s:%s:%s", filepath.Base(strings.Split(r.A.Frame, ":")[0]), r.A.Func, r.A.Kind)
	y := fmt.Sprintf("%s:%s:%s", filepath.Base(strings.Split(r.B.Frame, ":")[0]), r.B.Func, r.B.Kind)
	if r.A.Frame == "" {
		x = "outside-rapid"
	}
	if r.B.Frame == "" {
		y = "outside-rapid"
	}
	p := []string{x, y}
	sort.Strings(p)
	return p[0] + "~" + p[1]
}

var reAccess = regexp.MustCompile(`^(Previous )?([Rr]ead|[Ww]rite|[Aa]tomic [a-z]+) at 0x[0-9a-f]+ by `)
var reRapidPrefix = regexp.MustCompile(`^pgregory\.net/rapid(@[^/]+)?/`)
var reFrameLoc = regexp.MustCompile(`^\s+(\S+\.go):(\d+)`)

func (m *raceMon) enclosing(file string, line int) string {
	rel := reRapidPrefix.ReplaceAllString(file, "")
	spans, ok := m.fns[rel]
	if !ok {
		fset := token.NewFileSet()
		f, err := parser.ParseFile(fset, filepath.Join(m.src, rel), nil, 0)
		if err == nil {
			for _, d := range f.Decls {
				if fd, ok := d.(*ast.FuncDecl); ok {
					name := fd.Name.Name
					if fd.Recv != nil && len(fd.Recv.List) > 0 {
						t := fd.Recv.List[0].Type
						if st, ok := t.(*ast.StarExpr); ok {
							t = st.X
						}
						if ix, ok := t.(*ast.IndexExpr); ok {
							t = ix.X
						}
						if ix, ok := t.(*ast.IndexListExpr); ok {
							t = ix.X
						}
						if id, ok := t.(*ast.Ident); ok {
							name = id.Name + "." + name
						}
					}
					spans = append(spans, funcSpan{name, fset.Position(fd.Pos()).Line, fset.Position(fd.End()).Line})
				}
			}
		}
		m.fns[rel] = spans
	}
	for _, s := range spans {
		if line >= s.start && line <= s.end {
			return s.name
		}
	}
	return "?"
}

// collect returns the reports written since the last call.
func (m *raceMon) collect() []raceReport {
	if m.path == "" {
		return nil
	}
	b, err := os.ReadFile(m.path)
	if err != nil || int64(len(b)) <= m.off {
		return nil
	}
	text := string(b[m.off:])
	m.off = int64(len(b))
	var out []raceReport
	for _, blk := range strings.Split(text, "==================") {
		if !strings.Contains(blk, "WARNING: DATA RACE") {
			continue
		}
		rep := raceReport{Text: blk}
		var accs []raceAccess
		lines := strings.Split(blk, "\n")
		for i := 0; i < len(lines); i++ {
			mm := reAccess.FindStringSubmatch(lines[i])
			if mm == nil {
				continue
			}
			kind := strings.ToLower(mm[2])
			if strings.HasPrefix(kind, "atomic") {
				kind = strings.Fields(kind)[1]
			}
			acc := raceAccess{Kind: kind}
			for j := i + 1; j < len(lines) && strings.TrimSpace(lines[j]) != ""; j++ {
				fm := reFrameLoc.FindStringSubmatch(lines[j])
				if fm == nil {
					continue
				}
				if reRapidPrefix.MatchString(fm[1]) && !strings.Contains(fm[1], "/verifrt/") {
					var ln int
					fmt.Sscanf(fm[2], "%d", &ln)
					acc.Frame = fm[1] + ":" + fm[2]
					acc.Func = m.enclosing(fm[1], ln)
					break
				}
			}
			accs = append(accs, acc)
		}
		if len(accs) >= 2 {
			rep.A, rep.B = accs[0], accs[1]
			rep.InRapid = accs[0].Frame != "" || accs[1].Frame != ""
		}
		out = append(out, rep)
	}
	return out
}

// ---------------------------------------------------------------------------
// e2TB: recorded by the baton holder only, inside norace functions: no happens-before edge between callers.

type e2TB struct {
	name   string
	failed bool
	errs   []string
	logs   int
	stop   string
}

//go:norace
//go:noinline
func (tb *e2TB) note(method, text string, fail bool) {
	if fail {
		tb.failed = true
		tb.errs = append(tb.errs, text)
	}
	if method == "Logf" || method == "Log" {
		tb.logs++
	}
}

//go:norace
//go:noinline
func (tb *e2TB) isFailed() bool { return tb.failed }

func (tb *e2TB) Helper()                           {}
func (tb *e2TB) Name() string                      { return tb.name }
func (tb *e2TB) Logf(format string, args ...any)   { tb.note("Logf", "", false) }
func (tb *e2TB) Log(args ...any)                   { tb.note("Log", "", false) }
func (tb *e2TB) Skipf(format string, args ...any)  { panic(tbStop{"skip"}) }
func (tb *e2TB) Skip(args ...any)                  { panic(tbStop{"skip"}) }
func (tb *e2TB) SkipNow()                          { panic(tbStop{"skip"}) }
func (tb *e2TB) Errorf(format string, args ...any) { tb.note("Errorf", fmt.Sprintf(format, args...), true) }
func (tb *e2TB) Error(args ...any)                 { tb.note("Error", fmt.Sprint(args...), true) }
func (tb *e2TB) Fatalf(format string, args ...any) {
	tb.note("Fatalf", fmt.Sprintf(format, args...), true)
	panic(tbStop{"fatal"})
}
func (tb *e2TB) Fatal(args ...any) { tb.note("Fatal", fmt.Sprint(args...), true); panic(tbStop{"fatal"}) }
func (tb *e2TB) FailNow()          { tb.note("FailNow", "", true); panic(tbStop{"failnow"}) }
func (tb *e2TB) Fail()             { tb.note("Fail", "", true) }
func (tb *e2TB) Failed() bool      { return tb.isFailed() }

func (tb *e2TB) verdict() string {
	for _, e := range tb.errs {
		switch {
		case strings.HasPrefix(e, "[rapid] failed after"):
			return "fail"
		case strings.HasPrefix(e, "[rapid] panic after"):
			return "panic"
		case strings.HasPrefix(e, "[rapid] flaky"):
			return "flaky"
		case strings.HasPrefix(e, "[rapid] only generated"):
			return "onlygen"
		}
	}
	if tb.failed {
		return "other"
	}
	return "pass"
}

// runCheckE2 runs fn (which calls rapid.Check on tb) and recovers the TB sentinel.
func runGuarded(fn func()) (escaped any) {
	defer func() {
		if r := recover(); r != nil {
			if _, ok := r.(tbStop); ok {
				return
			}
			escaped = r
		}
	}()
	fn()
	return nil
}

func genPolicy(t *Tape) verifrt.Policy {
	p := verifrt.Policy{Seed: t.Draw("sched.seed", 1<<40)}
	switch t.Weighted("sched.policy", 4, 3, 3) {
	case 0:
		p.Kind = 0
	case 1:
		p.Kind = 1
		p.StayPct = []int{50, 80, 95}[t.Pick("sched.stay", 3)]
	case 2:
		p.Kind = 2
		p.D = t.Int("sched.pct_d", 1, 3)
		p.Horizon = t.Int("sched.pct_h", 10, 120)
	}
	return p
}

func init() {
	verifrt.OnDeadlock = func(why string) {
		if emergency != nil {
			emergency(viol(curProp+".deadlock", "deadlock", "the simulated goroutines deadlocked: %s", why))
		}
	}
}

var policyNames = []string{"uniform", "bursty", "pct"}

func schedFingerprint(tr []int32) uint64 {
	h := uint64(1469598103934665603)
	for _, v := range tr {
		h ^= uint64(uint32(v))
		h *= 1099511628211
	}
	return h
}
