package h

import (
	"fmt"
	"os"
	"path/filepath"
	"strings"
	"time"
)

// C17 — unusable fail files are ignored and never change the verdict.

func init() { scenarios["C17"] = scenarioC17 }

var c17FaultKinds = []string{"truncate", "bitflip", "garbage", "empty", "nuls", "long-line", "huge-number", "negative-number", "non-hex", "missing-version", "doubled-version", "foreign-version", "directory", "dangling-symlink", "now-passes", "extra-fields", "only-comments", "crlf", "dotless-version", "near-version", "empty-version", "blank-lines"}

// corrupt applies fault kind k to a valid file; returns nil content for the special (non-regular) kinds.
func corrupt(kind string, valid []byte, r *RNG, arg int) []byte {
	lines := strings.Split(string(valid), "\n")
	dataStart := 0
	for i, l := range lines {
		if !strings.HasPrefix(l, "#") && strings.TrimSpace(l) != "" {
			dataStart = i
			break
		}
	}
	switch kind {
	case "truncate":
		if len(valid) == 0 {
			return valid
		}
		return append([]byte(nil), valid[:arg%len(valid)]...)
	case "bitflip":
		if len(valid) == 0 {
			return valid
		}
		b := append([]byte(nil), valid...)
		bit := arg % (8 * len(b))
		b[bit/8] ^= 1 << uint(bit%8)
		return b
	case "garbage":
		b := make([]byte, 1+r.Uintn(600))
		for i := range b {
			b[i] = byte(r.Next())
		}
		return b
	case "empty":
		return []byte{}
	case "nuls":
		return make([]byte, 1+r.Uintn(300))
	case "long-line":
		return []byte(strings.Repeat("9", 70000+int(r.Uintn(200000))) + "\n" + string(valid))
	case "huge-number":
		return []byte(strings.Join(lines[:dataStart+1], "\n") + "\n0x1ffffffffffffffffffff\n0x1\n")
	case "negative-number":
		return []byte(strings.Join(lines[:dataStart+1], "\n") + "\n-0x5\n0x1\n")
	case "non-hex":
		return []byte(strings.Join(lines[:dataStart+1], "\n") + "\n0xzz\nhello world\n")
	case "missing-version":
		return []byte(strings.Join(append(append([]string{}, lines[:dataStart]...), lines[dataStart+1:]...), "\n"))
	case "doubled-version":
		return []byte(strings.Join(append(append(append([]string{}, lines[:dataStart+1]...), lines[dataStart]), lines[dataStart+1:]...), "\n"))
	case "foreign-version":
		l := lines[dataStart]
		if i := strings.Index(l, "#"); i >= 0 {
			l = "v9.9.9-other" + l[i:]
		}
		out := append([]string{}, lines...)
		out[dataStart] = l
		return []byte(strings.Join(out, "\n"))
	case "dotless-version", "near-version", "empty-version":
		// other rapid versions, including ones whose version string looks unusual or almost like the current one
		l := lines[dataStart]
		i := strings.Index(l, "#")
		if i < 0 {
			return valid
		}
		ver := l[:i]
		switch kind {
		case "dotless-version":
			ver = []string{"v1", "1", "v", "dev"}[arg%4]
		case "near-version":
			ver = []string{ver + "1", ver + "-rc1", ver + ".1", ver[:len(ver)-1] + "x", " " + ver + "0"}[arg%5]
		default:
			ver = ""
		}
		out := append([]string{}, lines...)
		out[dataStart] = ver + l[i:]
		return []byte(strings.Join(out, "\n"))
	case "extra-fields":
		out := append([]string{}, lines...)
		out[dataStart] = out[dataStart] + "#7#8"
		return []byte(strings.Join(out, "\n"))
	case "only-comments":
		return []byte(strings.Join(lines[:dataStart], "\n") + "\n# nothing else\n")
	case "crlf":
		return []byte(strings.ReplaceAll(string(valid), "\n", "\r\n"))
	case "blank-lines":
		// completely empty lines: alone, inside garbage, with CRLF, or inserted into an otherwise valid file
		switch arg % 4 {
		case 0:
			return []byte("\n")
		case 1:
			return []byte("garbage\n\n\nmore garbage\n")
		case 2:
			return []byte("\r\n\r\n")
		default:
			out := append([]string{}, lines[:dataStart]...)
			out = append(out, "", "")
			out = append(out, lines[dataStart:]...)
			return []byte(strings.Join(out, "\n"))
		}
	case "now-passes":
		return append([]byte(nil), valid...)
	}
	return nil
}

func scenarioC17(rc *RunCtx) {
	t := rc.T
	exhaustive := rc.Tier == "thorough" && t.Chance("c17.exhaustive", 50)
	// base program: passes; its failing variant produces the valid reference file(s)
	pf := &Profile{MaxStmts: 5, PSkip: 10, PRepeat: 15, PCustom: 10, PLog: 20, RejectHeavy: t.Chance("pf.rejectheavy", 40)}
	var base *Prog
	fl := genFlags(t, 15)
	if exhaustive {
		// fixed reference program and seed: every truncation offset and every single-bit flip of its file is enumerated
		base = &Prog{NVars: 2, Body: []*Stmt{
			{K: SDraw, Var: 0, Gen: &GenSpec{K: "sliceof", Sub: &GenSpec{K: "uint8"}}, Label: "xs"},
			{K: SDraw, Var: 1, Gen: &GenSpec{K: "stringn", A: 6}, Label: "s"},
			{K: SLog, LogK: 0, LogN: 10},
		}}
		fl = Flags{Checks: 4, Steps: 5, Seed: 424242, ShrinkTime: 0}
	} else {
		base = GenProg(t, pf)
	}
	fl.NoFailFile = true
	fl.Debug = false
	fl.Verbose = false
	if fl.ShrinkTime != 0 {
		// the differential pair does not see the same simulated time (handling the planted files costs harness calls),
		// so the minimization result must not depend on it: no time for minimization at all, or more than can pass
		fl.ShrinkTime = time.Hour
	}
	name := genName(t, false)
	dir := rc.FreshDir()
	variant := *base
	variant.Body = append(append([]*Stmt(nil), base.Body...), &Stmt{K: SFail, FKind: []FailKind{FKFatalf, FKErrorf, FKPanicStr}[t.Pick("c17.vkind", 3)], Site: 7})
	variant.NSites = 8
	vf := fl
	vf.NoFailFile = false
	vf.Checks = 3
	vf.ShrinkTime = shrinkTimes[t.Pick("c17.vshrink", 3)]
	pre := RunCheck(&variant, RunOpt{Name: name, Dir: dir, Flags: vf, Clock: ClockPolicy{Kind: ClkFrozen}})
	rc.SimNs += int64(pre.SimElapsed)
	files := FailFilesIn(Snapshot(dir))
	if len(files) != 1 || !failedVerdict(pre) {
		rc.Inc("probe.no_reference_file")
		return
	}
	refPath := filepath.Join(dir, files[0])
	valid, err := os.ReadFile(refPath)
	if err != nil {
		rc.V(viol("harness", "read-ref", "%v", err))
		return
	}
	_ = os.Remove(refPath)

	// target: the passing base program, or a failing program (the variant with a conditional failure)
	failingTarget := !exhaustive && t.Chance("c17.failing_target", 35)
	target := base
	if failingTarget {
		tp := *base
		fs := &Stmt{K: SIf, Cond: &Cond{Op: OpTrue}, Body: []*Stmt{{K: SFail, FKind: fatalKinds[t.Pick("c17.tkind", len(fatalKinds))], Site: 6}}}
		tp.Body = append(append([]*Stmt(nil), base.Body...), fs)
		tp.NSites = 8
		target = &tp
	}

	// faults on durable state
	sub := NewRNG(t.Draw("c17.sub", 1<<30))
	nFiles := 1
	if !exhaustive {
		nFiles = t.Int("c17.nfiles", 1, 4)
	}
	// "any number of such files": many entries that can be opened but not read, while the process is close to its
	// descriptor limit and the property opens a file itself
	fdPressure := !exhaustive && t.Chance("c17.fd_pressure", 6)
	if fdPressure {
		nFiles = 30 + t.Int("c17.fd_nfiles", 0, 70)
		rc.Inc("fault.descriptor_limit_close")
	}
	stem := strings.TrimSuffix(files[0], ".fail")
	var kinds []string
	for i := 0; i < nFiles; i++ {
		var kind string
		arg := 0
		if fdPressure {
			kind = "directory"
		} else if exhaustive {
			n := len(valid)
			f := t.Enum("c17.fault", 9*n)
			if f < n {
				kind, arg = "truncate", f
			} else {
				kind, arg = "bitflip", f-n
			}
		} else {
			kind = c17FaultKinds[t.Pick("c17.kind", len(c17FaultKinds))]
			arg = int(t.Draw("c17.arg", 1<<20))
		}
		path := filepath.Join(dir, fmt.Sprintf("%s-c%d.fail", stem, i))
		switch kind {
		case "directory":
			_ = os.MkdirAll(path, 0o755)
		case "dangling-symlink":
			_ = os.Symlink("/nonexistent-verif/target", path)
		default:
			_ = os.WriteFile(path, corrupt(kind, valid, sub, arg), 0o644)
		}
		kinds = append(kinds, kind)
		if !fdPressure || i == 0 {
			rc.Inc("fault.file." + kind)
		}
	}
	f1 := fl
	cc := genClockChoice(t, fl.ShrinkTime, 8, 2, 0, 0, 0)
	headroom := 0
	if fdPressure {
		headroom = 10
	}
	withFiles := RunCheck(target, RunOpt{Name: name, Dir: dir, Flags: f1, Clock: cc.Resolve(0), OpenProbe: fdPressure, FDHeadroom: headroom})
	rc.Note(withFiles)
	clean := RunCheck(target, RunOpt{Name: name, Dir: rc.FreshDir(), Flags: f1, Clock: cc.Resolve(0), OpenProbe: fdPressure, FDHeadroom: headroom})
	rc.SimNs += int64(clean.SimElapsed)
	rc.Sample = fmt.Sprintf("faults=%v failingTarget=%v %v verdict(with files)=%s verdict(clean)=%s\n%s", kinds, failingTarget, fl, withFiles.Verdict, clean.Verdict, target)
	rc.Tracef("faults on durable state: %v (reference file %d bytes)", kinds, len(valid))
	rc.Key = MixSeed(HashString(target.String()), HashString(strings.Join(kinds, ",")), fl.Seed, t.Out[len(t.Out)-1].Val, uint64(len(t.Out)))
	rc.Nontriv = true
	allVer := true
	for _, k := range kinds {
		if !strings.HasSuffix(k, "-version") {
			allVer = false
		}
	}
	judgeC17(rc, withFiles, clean, nFiles, allVer)
}

func judgeC17(rc *RunCtx, a, clean *CheckRun, nFiles int, allVersionKinds bool) {
	if a.W.Overrun || clean.W.Overrun {
		return
	}
	// R1: never crashes
	if a.W.Escaped != nil || a.BubblePanic != "" {
		rc.V(viol("C17.R1", "check-crashed", "Check panicked with unusable fail files present: %s %s", a.W.EscapedStr, a.BubblePanic))
		return
	}
	// files written by another rapid version are never replayed, whatever their test case would do now
	if allVersionKinds && len(a.ByPhase("failfile")) > 0 {
		rc.V(viol("C17.R2", "foreign-version-replayed", "a fail file written by another rapid version was replayed (%d fail-file invocations); TB log: %s", len(a.ByPhase("failfile")), oneLine(tbLogs(a), 300)))
		return
	}
	// a corrupted file that decodes into a still failing (or rapid-rejected as failing) case is usable, not unusable
	usable := 0
	for _, inv := range a.ByPhase("failfile") {
		if inv.Signalled() || inv.NoValidAction {
			usable++
		}
	}
	if usable > 0 {
		rc.Inc("scope.corrupted_file_still_failing")
		return
	}
	// R2: same verdict, same message, same random test cases as in a clean directory
	if a.Verdict != clean.Verdict {
		rc.V(viol("C17.R2", "verdict-changed", "verdict %s with unusable fail files present, %s without; TB log: %s", a.Verdict, clean.Verdict, oneLine(tbLogs(a), 400)))
		return
	}
	if verdictHead(a) != verdictHead(clean) && a.Verdict != "pass" {
		rc.V(viol("C17.R2", "message-changed", "message %q vs %q", oneLine(verdictHead(a), 200), oneLine(verdictHead(clean), 200)))
	}
	ga, gc := randomInvs(a), randomInvs(clean)
	if len(ga) != len(gc) {
		rc.V(viol("C17.R2", "random-cases-changed", "%d random test cases with the files present, %d without", len(ga), len(gc)))
		return
	}
	for i := range ga {
		if DrawLog(ga[i]) != DrawLog(gc[i]) {
			rc.V(viol("C17.R2", "random-draws-changed", "random test case %d drew {%s} with the files present, {%s} without", i, drawsStr(ga[i].Draws), drawsStr(gc[i].Draws)))
			return
		}
	}
	if a.W.TB.failed != clean.W.TB.failed {
		rc.V(viol("C17.R2", "failed-flag-changed", "TB failed=%v with files, %v without", a.W.TB.failed, clean.W.TB.failed))
	}
	// R3: one log line per unusable file during the fail-file phase
	limit := a.VerdictSeq
	if r := randomInvs(a); len(r) > 0 {
		limit = r[0].SeqBegin
	}
	if limit == 0 {
		limit = 1 << 60
	}
	lines := 0
	for _, c := range a.W.TB.Texts("Logf", "Log") {
		if c.Seq < limit {
			lines++
		}
	}
	if lines < nFiles {
		// (more lines than files is fine: the property asks for a log line per ignored file, not for silence otherwise)
		rc.V(viol("C17.R3", fmt.Sprintf("log-lines=%d-files=%d", lines, nFiles), "%d unusable fail files but only %d log lines before the first random test case: %s", nFiles, lines, oneLine(tbLogs(a), 400)))
	}
	rc.Inc("probe.differential_compared")
	_ = time.Second
}
