package h

import (
	"encoding/json"
	"os"
)

// One integer decides everything: every choice a simulated execution makes is a Tape.Draw.

type Entry struct {
	Site  string `json:"s"`
	Bound uint64 `json:"b"`
	Val   uint64 `json:"v"`
}

type Tape struct {
	rng    *RNG // nil in replay mode
	In     []Entry
	pos    int
	Out    []Entry
	Replay bool
	Idx    int // run index (record mode): lets a scenario enumerate a finite matrix instead of sampling it
}

type RNG struct{ s [4]uint64 }

func splitmix(x *uint64) uint64 {
	*x += 0x9e3779b97f4a7c15
	z := *x
	z = (z ^ (z >> 30)) * 0xbf58476d1ce4e5b9
	z = (z ^ (z >> 27)) * 0x94d049bb133111eb
	return z ^ (z >> 31)
}

func NewRNG(seed uint64) *RNG {
	r := &RNG{}
	x := seed
	for i := range r.s {
		r.s[i] = splitmix(&x)
	}
	return r
}

func rotl(x uint64, k uint) uint64 { return (x << k) | (x >> (64 - k)) }

// xoshiro256**
func (r *RNG) Next() uint64 {
	res := rotl(r.s[1]*5, 7) * 9
	t := r.s[1] << 17
	r.s[2] ^= r.s[0]
	r.s[3] ^= r.s[1]
	r.s[1] ^= r.s[2]
	r.s[0] ^= r.s[3]
	r.s[2] ^= t
	r.s[3] = rotl(r.s[3], 45)
	return res
}

// Uintn returns a value in [0, bound] (inclusive).
func (r *RNG) Uintn(bound uint64) uint64 {
	if bound == ^uint64(0) {
		return r.Next()
	}
	n := bound + 1
	// rejection sampling for uniformity
	lim := ^uint64(0) - (^uint64(0) % n)
	for {
		v := r.Next()
		if v < lim {
			return v % n
		}
	}
}

func MixSeed(parts ...uint64) uint64 {
	x := uint64(0x243f6a8885a308d3)
	for _, p := range parts {
		x ^= p
		_ = splitmix(&x)
		x = splitmix(&x) ^ p*0x9e3779b97f4a7c15
	}
	return splitmix(&x)
}

func HashString(s string) uint64 {
	h := uint64(14695981039346656037)
	for i := 0; i < len(s); i++ {
		h ^= uint64(s[i])
		h *= 1099511628211
	}
	return h
}

func NewTape(seed uint64) *Tape { return &Tape{rng: NewRNG(seed)} }

func ReplayTape(in []Entry) *Tape { return &Tape{In: in, Replay: true} }

// Draw returns a value in [0, bound]. 0 is by construction the mildest choice at every site.
func (t *Tape) Draw(site string, bound uint64) uint64 {
	var v uint64
	if t.Replay {
		if t.pos < len(t.In) {
			v = t.In[t.pos].Val
			if bound != ^uint64(0) {
				v %= bound + 1
			}
		}
		t.pos++
	} else {
		v = t.rng.Uintn(bound)
	}
	t.Out = append(t.Out, Entry{site, bound, v})
	return v
}

// Enum returns idx mod n in record mode (systematic enumeration over run indices) and the taped value on replay.
func (t *Tape) Enum(site string, n int) int {
	if n <= 1 {
		return 0
	}
	var v uint64
	if t.Replay {
		if t.pos < len(t.In) {
			v = t.In[t.pos].Val % uint64(n)
		}
		t.pos++
	} else {
		v = uint64(t.Idx % n)
	}
	t.Out = append(t.Out, Entry{site, uint64(n - 1), v})
	return int(v)
}

// EnumAt is Enum with an explicit enumeration index k (record mode).
func (t *Tape) EnumAt(site string, n int, k int) int {
	if n <= 1 {
		return 0
	}
	var v uint64
	if t.Replay {
		if t.pos < len(t.In) {
			v = t.In[t.pos].Val % uint64(n)
		}
		t.pos++
	} else {
		v = uint64(k % n)
	}
	t.Out = append(t.Out, Entry{site, uint64(n - 1), v})
	return int(v)
}

// Int returns a value in [lo, hi]; lo is the mild end.
func (t *Tape) Int(site string, lo, hi int) int {
	if hi <= lo {
		return lo
	}
	return lo + int(t.Draw(site, uint64(hi-lo)))
}

// Chance is true with probability pct/100; false is the mild value (tape value 0 → false).
func (t *Tape) Chance(site string, pct int) bool {
	if pct <= 0 {
		return false
	}
	if pct >= 100 {
		t.Draw(site, 0)
		return true
	}
	v := t.Draw(site, 99)
	return v >= uint64(100-pct)
}

// Weighted picks an index by integer weights; index 0 is the mild one.
func (t *Tape) Weighted(site string, weights ...int) int {
	total := 0
	for _, w := range weights {
		total += w
	}
	if total <= 0 {
		return 0
	}
	v := int(t.Draw(site, uint64(total-1)))
	for i, w := range weights {
		if v < w {
			return i
		}
		v -= w
	}
	return len(weights) - 1
}

func (t *Tape) Pick(site string, n int) int {
	if n <= 1 {
		return 0
	}
	return int(t.Draw(site, uint64(n-1)))
}

func LoadTape(path string) ([]Entry, error) {
	b, err := os.ReadFile(path)
	if err != nil {
		return nil, err
	}
	var f struct {
		Tape []Entry `json:"tape"`
	}
	if err := json.Unmarshal(b, &f); err != nil {
		return nil, err
	}
	return f.Tape, nil
}
