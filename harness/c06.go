package h

import (
	"fmt"
	"syscall"
	"os"
	"path/filepath"
	"strings"
	"time"
)

// C06 — a failure is persisted and automatically replayed first on the next run.

func init() { scenarios["C06"] = scenarioC06 }

func scenarioC06(rc *RunCtx) {
	t := rc.T
	pf := failingProfile(t)
	pf.PLog = 60
	pf.HostileLogs = true
	pf.BigLogs = t.Chance("c06.biglogs", 25)
	pf.FailCondEasy = true
	pf.PSkip = 5
	var prog *Prog
	if t.Chance("c06.empty_bitstream", 8) {
		// unconditional failure: the minimized bitstream is empty
		prog = &Prog{Body: []*Stmt{{K: SLog, LogK: t.Pick("log.kind", 7), LogN: 30}, {K: SFail, FKind: fatalKinds[t.Pick("fail.kind", len(fatalKinds))], Site: 0}}, NSites: 1}
	} else {
		prog = GenProg(t, pf)
	}
	fl := genFlags(t, 25)
	fl.NoFailFile = false
	fl.Debug = false
	cc := genClockChoice(t, fl.ShrinkTime, 5, 2, 1, 3, 0)
	name := genName(t, t.Chance("c06.hostile_name", 70))
	dir := rc.FreshDir()

	// stale fail files of a case that now passes (made by a real failing run of a variant program)
	nStale := t.Weighted("c06.stale", 7, 2, 1)
	if nStale > 0 {
		passing := &Prog{NVars: 1, Body: []*Stmt{{K: SDraw, Var: 0, Gen: &GenSpec{K: "uint8"}, Label: "s"}}}
		variant := &Prog{NVars: 1, NSites: 1, Body: []*Stmt{passing.Body[0], {K: SFail, FKind: FKFatalf, Site: 7}}}
		_ = passing
		for i := 0; i < nStale; i++ {
			vf := Flags{Checks: 3, Steps: 3, Seed: fl.Seed + 77 + uint64(i), ShrinkTime: 0}
			pre := RunCheck(variant, RunOpt{Name: name, Dir: dir, Flags: vf, Clock: ClockPolicy{Kind: ClkCut, K: 0, Delta: time.Duration(i+1)*time.Hour + 17*time.Second}})
			rc.SimNs += int64(pre.SimElapsed)
		}
		// these files describe test cases of another program: for `prog` they pass, fail or are invalid — whatever
		// happens, it happens before any random test case. Only when none of them still fails is R2 judged.
	}
	staleBefore := len(FailFilesIn(Snapshot(dir)))
	if t.Chance("c06.run1_flag", 15) {
		// run 1 itself is given -rapid.failfile=<a file that is of no use>: garbage, empty, or a well-formed file
		// whose test case is of no use now. The failure found afterwards by random search is persisted and named as usual.
		content := []byte("# not a fail file\n\x00\xff garbage")
		switch t.Pick("c06.run1_flag_kind", 3) {
		case 0:
			content = nil
		case 1:
			// a well-formed file of a test case that is invalid now (more data than anything can consume is fine, less is not)
			content = []byte("# stale\n" + rapidVersionLine() + "\n")
		}
		_ = os.WriteFile(filepath.Join(dir, "explicit-run1.fail"), content, 0o644)
		fl.FailFile = "explicit-run1.fail"
		rc.Inc("probe.run1_with_explicit_useless_failfile")
	}

	// environment: the temporary directory of the process may live on another file system than the package directory
	if t.Chance("c06.tmpdir_other_fs", 12) {
		if other := otherFSDir(rc.Dir); other != "" {
			oldTmp, had := os.LookupEnv("TMPDIR")
			os.Setenv("TMPDIR", other)
			rc.Inc("fault.tmpdir_on_other_filesystem")
			defer func() {
				if had {
					os.Setenv("TMPDIR", oldTmp)
				} else {
					os.Unsetenv("TMPDIR")
				}
				os.RemoveAll(other)
			}()
		}
	}
	_, r1 := runWithClock(rc, prog, RunOpt{Name: name, Dir: dir, Flags: fl, WithCtx: t.Chance("tb.ctx", 15)}, cc, rc.FreshDir())
	notePhaseCut(rc, r1)
	rc.Sample = fmt.Sprintf("name=%q %v clock=%v verdict=%s stale=%d\n%s", name, fl, r1.Clock, r1.Verdict, staleBefore, prog)
	rc.Key = MixSeed(HashString(prog.String()), HashString(name), fl.Seed, uint64(fl.Checks), uint64(r1.Clock.Kind), uint64(r1.Clock.K))
	if r1.W.Overrun {
		return
	}
	if r1.W.Escaped != nil || r1.BubblePanic != "" {
		rc.V(viol("C06.crash", "escaped", "Check panicked: %s %s", r1.W.EscapedStr, r1.BubblePanic))
		return
	}
	if r1.Verdict != "fail" && r1.Verdict != "panic" {
		rc.Inc("probe.run1_did_not_fail")
		return
	}
	F1 := r1.Final()
	if F1 == nil {
		return
	}
	rc.Nontriv = true
	if len(r1.ByPhase("failfile")) > 0 && firstFailing(r1).Phase == "failfile" {
		// an older (stale) file still fails for this program: run 1 was itself a replay; out of R1's premise
		rc.Inc("scope.older_file_still_failing")
		return
	}
	// R1: exactly one new regular *.fail file below testdata/rapid/
	nf := newFailFiles(r1)
	if len(nf) == 0 && r1.FailFileNamed != "" {
		for _, f := range FailFilesIn(r1.SnapBefore) {
			if filepath.Clean(f) == filepath.Clean(r1.FailFileNamed) && (fl.FailFile == "" || filepath.Clean(f) != filepath.Clean(fl.FailFile)) {
				// same test name, same simulated second, same pid as an older file: the save replaced it (not a new name)
				rc.Inc("scope.file_name_collision")
				return
			}
		}
	}
	if len(nf) != 1 {
		rc.V(viol("C06.R1", fmt.Sprintf("new-fail-files=%d", len(nf)), "after a failing Check with fail files enabled %d new *.fail files exist (%v); verdict: %s", len(nf), nf, oneLine(r1.VerdictText, 200)))
		return
	}
	if !strings.HasPrefix(nf[0], filepath.Join("testdata", "rapid")+string(filepath.Separator)) {
		rc.V(viol("C06.R1", "wrong-dir", "fail file %q is not below testdata/rapid/", nf[0]))
	}
	if r1.FailFileNamed == "" {
		rc.V(viol("C06.R1", "file-not-named", "failure message does not name the fail file: %s", oneLine(r1.VerdictText, 200)))
	} else if filepath.Clean(r1.FailFileNamed) != filepath.Clean(nf[0]) {
		rc.V(viol("C06.R1", "named-other-file", "failure message names %q but the new file is %q", r1.FailFileNamed, nf[0]))
	}
	if len(F1.Info.Buf) == 0 {
		rc.Inc("probe.empty_minimized_bitstream")
	}
	logBytes := 0
	for _, e := range r1.W.Events {
		if e.Kind == EvLog && e.Inv == F1.Idx {
			logBytes += e.N
			if e.N >= 65000 {
				rc.Inc("probe.output_line_64k_or_more")
			}
		}
	}
	if logBytes == 0 {
		rc.Inc("probe.no_output_logged")
	}

	// restart; time between the runs: same second, +1s, +1 year
	gap := []time.Duration{0, time.Second, 365 * 24 * time.Hour}[t.Pick("c06.gap", 3)]
	pol2 := ClockPolicy{Kind: ClkFrozen}
	if gap > 0 {
		pol2 = ClockPolicy{Kind: ClkCut, K: 0, Delta: gap}
	}
	f2 := fl
	f2.FailFile = ""
	f2.Seed = fl.Seed + 12345 // whatever the second run would generate randomly must not matter
	if fl.Seed%3 == 0 {
		// -rapid.nofailfile on the re-run: it stops fail files from being written, not from being found and replayed
		f2.NoFailFile = true
		rc.Inc("probe.rerun_with_nofailfile")
	}
	variantFlag := t.Chance("c06.flag_variant", 30)
	dir2 := dir
	if !variantFlag && t.Chance("c06.flag_elsewhere", 15) {
		// -rapid.failfile names some OTHER file (garbage, or a case that passes now): the stored failure is still found
		other := filepath.Join(dir, "explicit-other.fail")
		content := []byte("# not a fail file\n\x00\xff garbage")
		if t.Chance("c06.flag_elsewhere_empty", 40) {
			content = nil
		}
		_ = os.WriteFile(other, content, 0o644)
		f2.FailFile = "explicit-other.fail"
		rc.Inc("probe.explicit_flag_names_another_file")
	}
	if variantFlag {
		// -rapid.failfile=<path>: move the file out of the discovery directory into a fresh tree
		dir2 = rc.FreshDir()
		data, err := os.ReadFile(filepath.Join(dir, nf[0]))
		if err != nil {
			rc.V(viol("harness", "read-failfile", "%v", err))
			return
		}
		_ = os.WriteFile(filepath.Join(dir2, "moved.fail"), data, 0o644)
		f2.FailFile = "moved.fail"
		rc.Inc("probe.failfile_flag_variant")
	}
	o2 := RunOpt{Name: name, Dir: dir2, Flags: f2, Clock: pol2}
	var r2 *CheckRun
	if t.Chance("c06.new_process", map[string]int{"quick": 4, "thorough": 20}[rc.Tier]) {
		// the next run as it really happens: a new OS process (new pid, cold process state)
		var err error
		r2, err = RunCheckInChild(prog, o2, filepath.Join(rc.Dir, "child"))
		if err != nil {
			rc.V(viol("harness", "child-process", "%v", err))
			return
		}
		rc.Inc("fault.restart_new_process")
		rc.Inc("checks_run")
	} else {
		r2 = RunCheck(prog, o2)
		rc.Note(r2)
		rc.Inc("fault.restart_new_bubble")
	}
	judgeC06Rerun(rc, r1, r2, F1, variantFlag)
}

func judgeC06Rerun(rc *RunCtx, r1, r2 *CheckRun, F1 *Invocation, viaFlag bool) {
	rule := "C06.R2"
	if viaFlag {
		rule = "C06.R3"
	}
	if r2.W.Overrun {
		return
	}
	if r2.W.Escaped != nil || r2.BubblePanic != "" {
		rc.V(viol("C06.crash", "escaped", "second Check panicked: %s %s", r2.W.EscapedStr, r2.BubblePanic))
		return
	}
	for _, c := range r2.W.TB.Texts("Logf") {
		if strings.Contains(c.Text, "ignoring fail file") && !strings.Contains(c.Text, "passes now") {
			rc.Inc("probe.run2_ignored_a_file")
		}
	}
	if n := len(r2.ByPhase("gen")) + len(r2.ByPhase("repro")); n > 0 {
		rc.V(viol(rule, "random-case-in-rerun", "the next Check ran %d random test cases instead of failing on the saved one (verdict %s); TB log: %s", n, r2.Verdict, oneLine(tbLogs(r2), 300)))
		return
	}
	if r2.Verdict != "fail" && r2.Verdict != "panic" {
		rc.V(viol(rule, "rerun-did-not-fail", "the next Check did not fail (verdict %s); TB log: %s", r2.Verdict, oneLine(tbLogs(r2), 300)))
		return
	}
	if r2.AfterTests != 0 {
		rc.V(viol(rule, "not-after-0", "the next Check failed after %d tests, not after 0", r2.AfterTests))
	}
	// the first failing fail-file replay is fed exactly the minimized words
	var first *Invocation
	for _, inv := range r2.ByPhase("failfile") {
		if inv.Signalled() || inv.NoValidAction {
			first = inv
			break
		}
	}
	if first == nil {
		for _, inv := range r2.W.Invs {
			rc.Tracef("  r2 inv %d %s custom=%v end=%s signals=%d draws={%s}", inv.Idx, inv.Phase, inv.Custom, inv.EndState, len(inv.Signals), oneLine(drawsStr(inv.Draws), 200))
		}
		rc.Tracef("  r2 verdict: %s", oneLine(r2.VerdictText, 600))
		rc.V(viol(rule, "no-failing-replay", "the next Check failed without a failing fail-file replay"))
		return
	}
	if cmpBuf(first.Info.Buf, F1.Info.Buf) != 0 {
		rc.V(viol(rule, "other-words", "fail-file replay was fed %s, the minimized test case is %s", bufStr(first.Info.Buf), bufStr(F1.Info.Buf)))
		return
	}
	F2 := r2.Final()
	if F2 == nil {
		rc.V(viol(rule, "no-final", "the next Check never replayed the final test case"))
		return
	}
	if DrawLog(F2) != DrawLog(F1) || F2.SiteKey() != F1.SiteKey() {
		rc.V(viol(rule, "other-values", "replay drew {%s} (%s); the saved failure drew {%s} (%s)", drawsStr(F2.Draws), F2.SiteKey(), drawsStr(F1.Draws), F1.SiteKey()))
	}
	m1, m2 := verdictHead(r1), verdictHead(r2)
	if m1 != m2 {
		rc.V(viol(rule, "other-message", "replay reports %q, the saved failure was %q", oneLine(m2, 200), oneLine(m1, 200)))
	}
	rc.Inc("probe.failure_replayed_first")
}

// verdictHead: the failure description without the "after N tests" count and the reproduction hints.
func verdictHead(cr *CheckRun) string {
	s := cr.VerdictText
	if i := strings.Index(s, "\nTo reproduce"); i >= 0 {
		s = s[:i]
	}
	if i := strings.Index(s, " tests: "); i >= 0 {
		s = s[i+len(" tests: "):]
	}
	return NormText(s) // durations are not part of the failure
}

func tbLogs(cr *CheckRun) string {
	var b strings.Builder
	for _, c := range cr.W.TB.Texts("Logf", "Log", "Errorf") {
		b.WriteString(c.Text)
		b.WriteString(" || ")
	}
	return b.String()
}

// otherFSDir returns a fresh directory on a file system other than the one holding dir ("" if none is available).
func otherFSDir(dir string) string {
	var a, b syscall.Stat_t
	if syscall.Stat(dir, &a) != nil || syscall.Stat("/dev/shm", &b) != nil || a.Dev == b.Dev {
		return ""
	}
	d, err := os.MkdirTemp("/dev/shm", "vcheck-tmp-")
	if err != nil {
		return ""
	}
	return d
}
