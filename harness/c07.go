package h

import (
	"fmt"
	"os"
	"strings"
	"time"

	"pgregory.net/rapid"
)

// C07 — the printed seed reproduces the failure; a fixed seed fixes the whole run.

func init() { scenarios["C07"] = scenarioC07 }

// scenarioC07MakeCheck: a MakeCheck closure created BEFORE the flags of this run are set (as a package-level table of
// subtests would be) must still honour -rapid.seed: it generates exactly the test cases Check generates.
func scenarioC07MakeCheck(rc *RunCtx) {
	t := rc.T
	var drawsMC, drawsCk []string
	rec := func(dst *[]string) func(*rapid.T) {
		return func(rt *rapid.T) {
			a := rapid.IntRange(0, 1<<30).Draw(rt, "a")
			b := rapid.SliceOfN(rapid.Uint8(), 0, 4).Draw(rt, "b")
			*dst = append(*dst, fmt.Sprintf("%d %v", a, b))
		}
	}
	mc := rapid.MakeCheck(rec(&drawsMC)) // created while the flags still hold whatever the previous run left there
	fl := Flags{Checks: t.Int("c07.mc.checks", 1, 8), Steps: 3, Seed: 1 + t.Draw("c07.mc.seed", 1<<40), ShrinkTime: time.Second, NoFailFile: true}
	fl.Apply()
	old, _ := os.Getwd()
	_ = os.Chdir(rc.FreshDir())
	curT.Run("makecheck", mc)
	tb := &simTB{w: NewWorld("mc", ClockPolicy{}, false), name: "makecheck"}
	func() {
		defer func() { recover() }()
		rapid.Check(tb, rec(&drawsCk))
	}()
	_ = os.Chdir(old)
	rc.Inc("leg.makecheck_created_before_flags")
	rc.Inc("checks_run")
	rc.Sample = fmt.Sprintf("MakeCheck leg: seed=%d checks=%d -> %d / %d cases", fl.Seed, fl.Checks, len(drawsMC), len(drawsCk))
	rc.Tracef("%s", rc.Sample)
	rc.Key = MixSeed(fl.Seed, uint64(fl.Checks))
	rc.Nontriv = len(drawsMC) > 0
	rc.MixHash(HashString(strings.Join(drawsMC, ";")))
	if strings.Join(drawsMC, ";") != strings.Join(drawsCk, ";") {
		rc.V(viol("C07.R1", "makecheck-ignores-seed", "with -rapid.seed=%d a MakeCheck closure created earlier generated {%s}, Check generates {%s}", fl.Seed, oneLine(strings.Join(drawsMC, "; "), 200), oneLine(strings.Join(drawsCk, "; "), 200)))
	}
}

func scenarioC07(rc *RunCtx) {
	t := rc.T
	if t.Chance("c07.makecheck_leg", 6) {
		scenarioC07MakeCheck(rc)
		return
	}
	pf := failingProfile(t)
	pf.Selector = t.Int("c07.selector", 1, 60)
	pf.FailCondEasy = true
	prog := GenProg(t, pf)
	fl := genFlags(t, 40)
	fl.NoFailFile = !t.Chance("c07.failfile", 25)
	fl.Short = t.Chance("flags.short", 15)
	if fl.Short && fl.Checks < 5 {
		fl.Checks = 5 + fl.Checks // under -short rapid divides the number of checks by 5
	}
	cc := genClockChoice(t, fl.ShrinkTime, 4, 3, 2, 3, 1)
	name := genName(t, false)
	withCtx := t.Chance("tb.ctx", 15)

	// R1: the same (program, seed, simulated time) twice, in fresh bubbles and fresh directories
	_, a := runWithClock(rc, prog, RunOpt{Name: name, Dir: rc.FreshDir(), Flags: fl, WithCtx: withCtx}, cc, rc.FreshDir())
	pol := a.Clock
	b := RunCheck(prog, RunOpt{Name: name, Dir: rc.FreshDir(), Flags: fl, Clock: pol, WithCtx: withCtx})
	rc.Note(b)
	rc.Sample = fmt.Sprintf("%v clock=%v verdict=%s invocations=%d\n%s", fl, pol, a.Verdict, len(a.W.Invs), prog)
	rc.Key = MixSeed(HashString(prog.String()), fl.Seed, uint64(fl.Checks), uint64(pol.Kind), uint64(pol.K))
	if a.W.Overrun || b.W.Overrun {
		return
	}
	if a.HistoryHash() != b.HistoryHash() {
		rc.V(viol("C07.R1", "run-differs", "two runs with -rapid.seed=%d under identical simulated time differ: %s", fl.Seed, diffRuns(a, b)))
	} else {
		// a third execution: a run that is only sometimes different must not slip through (nor fail to replay)
		b2 := RunCheck(prog, RunOpt{Name: name, Dir: rc.FreshDir(), Flags: fl, Clock: pol, WithCtx: withCtx})
		rc.SimNs += int64(b2.SimElapsed)
		if !b2.W.Overrun && a.HistoryHash() != b2.HistoryHash() {
			rc.V(viol("C07.R1", "run-differs", "two runs with -rapid.seed=%d under identical simulated time differ: %s", fl.Seed, diffRuns(a, b2)))
		}
	}
	rc.Nontriv = failedVerdict(a)
	if !failedVerdict(a) {
		rc.Inc("probe.run_did_not_fail")
		return
	}
	O := a.Original()
	if O == nil {
		return
	}
	idx := len(a.ByPhase("gen")) - 1
	if idx > 9 {
		idx = 9
	}
	rc.Inc(fmt.Sprintf("probe.first_falsified_index_%d", idx))
	if a.Verdict == "flaky" {
		rc.Inc("probe.flaky_verdict_seed_judged") // the seed printed with a "flaky" report is held to the same standard
	}
	// R2: the printed seed
	if a.SeedPrinted == 0 {
		rc.V(viol("C07.R2", "no-seed-printed", "failure message names no -rapid.seed: %s", oneLine(a.VerdictText, 200)))
		return
	}
	f2 := fl
	f2.Seed = a.SeedPrinted
	f2.NoFailFile = true
	c := RunCheck(prog, RunOpt{Name: name, Dir: rc.FreshDir(), Flags: f2, Clock: ClockPolicy{Kind: ClkFrozen}, WithCtx: withCtx})
	rc.Note(c)
	if c.W.Overrun {
		return
	}
	gen := c.ByPhase("gen")
	if len(gen) == 0 {
		rc.V(viol("C07.R2", "no-case", "run with the printed seed executed no random test case"))
		return
	}
	if DrawLog(gen[0]) != DrawLog(O) {
		rc.V(viol("C07.R2", "first-case-differs", "with -rapid.seed=%d the first test case drew {%s}; the originally failing test case (index %d) drew {%s}", a.SeedPrinted, drawsStr(gen[0].Draws), len(a.ByPhase("gen"))-1, drawsStr(O.Draws)))
		return
	}
	if !failedVerdict(c) || c.AfterTests != 0 || len(gen) != 1 {
		rc.V(viol("C07.R2", "not-after-0", "with the printed seed: verdict=%s after %d tests, %d random cases (want a failure after 0 tests)", c.Verdict, c.AfterTests, len(gen)))
	}
	rc.Inc("probe.printed_seed_replayed")

	// a failure replayed from the fail file: if its message offers a seed, that seed has to reproduce the failure too
	if !fl.NoFailFile && len(newFailFiles(a)) == 1 {
		f3 := fl
		f3.NoFailFile = true
		d := RunCheck(prog, RunOpt{Name: name, Dir: a.Dir, Flags: f3, Clock: ClockPolicy{Kind: ClkFrozen}, WithCtx: withCtx})
		rc.Note(d)
		if failedVerdict(d) && d.SeedPrinted != 0 && len(d.ByPhase("gen")) == 0 {
			rc.Inc("probe.seed_printed_for_failfile_failure")
			f4 := fl
			f4.Seed = d.SeedPrinted
			f4.NoFailFile = true
			e := RunCheck(prog, RunOpt{Name: name, Dir: rc.FreshDir(), Flags: f4, Clock: ClockPolicy{Kind: ClkFrozen}, WithCtx: withCtx})
			rc.Note(e)
			if F := d.Final(); F != nil && !e.W.Overrun {
				ge := e.ByPhase("gen")
				if len(ge) == 0 || DrawLog(ge[0]) != DrawLog(O) || !failedVerdict(e) || e.AfterTests != 0 {
					rc.V(viol("C07.R2", "failfile-report-seed", "the failure replayed from the fail file offers -rapid.seed=%d, which does not reproduce it (verdict %s after %d tests)", d.SeedPrinted, e.Verdict, e.AfterTests))
				}
			}
		}
	}
}

// diffRuns describes the first difference between two histories.
func diffRuns(a, b *CheckRun) string {
	ea, eb := a.W.Events, b.W.Events
	n := len(ea)
	if len(eb) < n {
		n = len(eb)
	}
	for i := 0; i < n; i++ {
		x, y := ea[i], eb[i]
		if x.Kind == EvTB && (x.A == "Name" || x.A == "Failed") && y.Kind == EvTB && x.A == y.A {
			continue
		}
		if x.Kind != y.Kind || x.Inv != y.Inv || x.A != y.A || NormText(x.B) != NormText(y.B) || x.N != y.N || x.OK != y.OK {
			return fmt.Sprintf("event %d: %v inv=%d %q %q vs %v inv=%d %q %q", i, x.Kind, x.Inv, x.A, oneLine(x.B, 80), y.Kind, y.Inv, y.A, oneLine(y.B, 80))
		}
	}
	if len(ea) != len(eb) {
		return fmt.Sprintf("%d vs %d events", len(ea), len(eb))
	}
	if len(a.W.Invs) != len(b.W.Invs) {
		return fmt.Sprintf("%d vs %d invocations", len(a.W.Invs), len(b.W.Invs))
	}
	for i := range a.W.Invs {
		if cmpBuf(a.W.Invs[i].Info.Buf, b.W.Invs[i].Info.Buf) != 0 {
			return fmt.Sprintf("invocation %d started with %s vs %s", i, bufStr(a.W.Invs[i].Info.Buf), bufStr(b.W.Invs[i].Info.Buf))
		}
	}
	return fmt.Sprintf("verdict %s/%s vs %s/%s", a.Verdict, a.W.StopWhy, b.Verdict, b.W.StopWhy)
}
