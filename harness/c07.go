package h

import (
	"fmt"
)

// C07 — the printed seed reproduces the failure; a fixed seed fixes the whole run.

func init() { scenarios["C07"] = scenarioC07 }

func scenarioC07(rc *RunCtx) {
	t := rc.T
	pf := failingProfile(t)
	pf.Selector = t.Int("c07.selector", 1, 60)
	pf.FailCondEasy = true
	prog := GenProg(t, pf)
	fl := genFlags(t, 40)
	fl.NoFailFile = !t.Chance("c07.failfile", 25)
	cc := genClockChoice(t, fl.ShrinkTime, 4, 3, 2, 3, 1)
	name := genName(t, false)
	withCtx := t.Chance("tb.ctx", 15)

	// R1: the same (program, seed, simulated time) twice, in fresh bubbles and fresh directories
	_, a := runWithClock(rc, prog, RunOpt{Name: name, Dir: rc.FreshDir(), Flags: fl, WithCtx: withCtx}, cc, rc.FreshDir())
	pol := a.Clock
	b := RunCheck(prog, RunOpt{Name: name, Dir: rc.FreshDir(), Flags: fl, Clock: pol, WithCtx: withCtx})
	rc.Note(b)
	rc.Sample = fmt.Sprintf("%v clock=%v verdict=%s invocations=%d\n%s", fl, pol, a.Verdict, len(a.W.Invs), prog)
	rc.Key = MixSeed(HashString(prog.String()), fl.Seed, uint64(fl.Checks), uint64(pol.Kind), uint64(pol.K))
	if a.W.Overrun || b.W.Overrun {
		return
	}
	if a.HistoryHash() != b.HistoryHash() {
		rc.V(viol("C07.R1", "run-differs", "two runs with -rapid.seed=%d under identical simulated time differ: %s", fl.Seed, diffRuns(a, b)))
	} else {
		// a third execution: a run that is only sometimes different must not slip through (nor fail to replay)
		b2 := RunCheck(prog, RunOpt{Name: name, Dir: rc.FreshDir(), Flags: fl, Clock: pol, WithCtx: withCtx})
		rc.SimNs += int64(b2.SimElapsed)
		if !b2.W.Overrun && a.HistoryHash() != b2.HistoryHash() {
			rc.V(viol("C07.R1", "run-differs", "two runs with -rapid.seed=%d under identical simulated time differ: %s", fl.Seed, diffRuns(a, b2)))
		}
	}
	rc.Nontriv = failedVerdict(a)
	if !failedVerdict(a) {
		rc.Inc("probe.run_did_not_fail")
		return
	}
	O := a.Original()
	if O == nil {
		return
	}
	idx := len(a.ByPhase("gen")) - 1
	if idx > 9 {
		idx = 9
	}
	rc.Inc(fmt.Sprintf("probe.first_falsified_index_%d", idx))
	if a.Verdict == "flaky" {
		rc.Inc("probe.flaky_verdict_seed_judged") // the seed printed with a "flaky" report is held to the same standard
	}
	// R2: the printed seed
	if a.SeedPrinted == 0 {
		rc.V(viol("C07.R2", "no-seed-printed", "failure message names no -rapid.seed: %s", oneLine(a.VerdictText, 200)))
		return
	}
	f2 := fl
	f2.Seed = a.SeedPrinted
	f2.NoFailFile = true
	c := RunCheck(prog, RunOpt{Name: name, Dir: rc.FreshDir(), Flags: f2, Clock: ClockPolicy{Kind: ClkFrozen}, WithCtx: withCtx})
	rc.Note(c)
	if c.W.Overrun {
		return
	}
	gen := c.ByPhase("gen")
	if len(gen) == 0 {
		rc.V(viol("C07.R2", "no-case", "run with the printed seed executed no random test case"))
		return
	}
	if DrawLog(gen[0]) != DrawLog(O) {
		rc.V(viol("C07.R2", "first-case-differs", "with -rapid.seed=%d the first test case drew {%s}; the originally failing test case (index %d) drew {%s}", a.SeedPrinted, drawsStr(gen[0].Draws), len(a.ByPhase("gen"))-1, drawsStr(O.Draws)))
		return
	}
	if !failedVerdict(c) || c.AfterTests != 0 || len(gen) != 1 {
		rc.V(viol("C07.R2", "not-after-0", "with the printed seed: verdict=%s after %d tests, %d random cases (want a failure after 0 tests)", c.Verdict, c.AfterTests, len(gen)))
	}
	rc.Inc("probe.printed_seed_replayed")
}

// diffRuns describes the first difference between two histories.
func diffRuns(a, b *CheckRun) string {
	ea, eb := a.W.Events, b.W.Events
	n := len(ea)
	if len(eb) < n {
		n = len(eb)
	}
	for i := 0; i < n; i++ {
		x, y := ea[i], eb[i]
		if x.Kind == EvTB && (x.A == "Name" || x.A == "Failed") && y.Kind == EvTB && x.A == y.A {
			continue
		}
		if x.Kind != y.Kind || x.Inv != y.Inv || x.A != y.A || NormText(x.B) != NormText(y.B) || x.N != y.N || x.OK != y.OK {
			return fmt.Sprintf("event %d: %v inv=%d %q %q vs %v inv=%d %q %q", i, x.Kind, x.Inv, x.A, oneLine(x.B, 80), y.Kind, y.Inv, y.A, oneLine(y.B, 80))
		}
	}
	if len(ea) != len(eb) {
		return fmt.Sprintf("%d vs %d events", len(ea), len(eb))
	}
	if len(a.W.Invs) != len(b.W.Invs) {
		return fmt.Sprintf("%d vs %d invocations", len(a.W.Invs), len(b.W.Invs))
	}
	for i := range a.W.Invs {
		if cmpBuf(a.W.Invs[i].Info.Buf, b.W.Invs[i].Info.Buf) != 0 {
			return fmt.Sprintf("invocation %d started with %s vs %s", i, bufStr(a.W.Invs[i].Info.Buf), bufStr(b.W.Invs[i].Info.Buf))
		}
	}
	return fmt.Sprintf("verdict %s/%s vs %s/%s", a.Verdict, a.W.StopWhy, b.Verdict, b.W.StopWhy)
}
