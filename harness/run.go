package h

import (
	"fmt"
	"runtime/debug"
	"hash/fnv"
	"os"
	"regexp"
	"strconv"
	"strings"
	"syscall"
	"testing"
	"testing/synctest"
	"time"

	"pgregory.net/rapid"
)

// CheckRun is the finished history of one simulated rapid.Check.
type CheckRun struct {
	W     *World
	In    *Interp
	Prog  *Prog
	Flags Flags
	Clock ClockPolicy
	Name  string
	Dir   string

	SnapBefore []DirEntry
	SnapAfter  []DirEntry

	// derived
	Verdict       string // "pass", "fail", "panic", "flaky", "onlygen", "other"
	VerdictText   string
	VerdictSeq    int
	AfterTests    int
	SeedPrinted   uint64
	FailFileNamed string
	WaitersWoken  int
	WaitersLeaked int
	SimElapsed    time.Duration
	BubblePanic   string
}

var curT *testing.T // the worker's *testing.T (synctest.Test needs one)

// synctestRun runs f in a fresh bubble.
func synctestRun(f func()) { synctest.Test(curT, func(*testing.T) { f() }) }

func synctestWait() { synctest.Wait() }

type RunOpt struct {
	Name    string
	Dir     string // scratch cwd for this run (must exist)
	Flags   Flags
	Clock   ClockPolicy
	WithCtx bool
	NoBubble bool
	UseMakeCheck bool
	OpenProbe    bool // see Interp.OpenProbe
	FDHeadroom   int  // >0: while Check runs, the process may open only this many files more than are open at its start
}

// RunCheck executes rapid.Check(simTB, prog) inside a fresh synctest bubble with the given clock policy.
func RunCheck(p *Prog, o RunOpt) *CheckRun {
	w := NewWorld(o.Name, o.Clock, o.WithCtx)
	in := NewInterp(w, p)
	in.OpenProbe = o.OpenProbe
	cr := &CheckRun{W: w, In: in, Prog: p, Flags: o.Flags, Clock: o.Clock, Name: o.Name, Dir: o.Dir}
	old, _ := os.Getwd()
	if err := os.Chdir(o.Dir); err != nil {
		panic("harness: chdir: " + err.Error())
	}
	defer os.Chdir(old)
	o.Flags.Apply()
	cr.SnapBefore = Snapshot(".")

	body := func() {
		w.initChans()
		func() {
			defer func() {
				if r := recover(); r != nil {
					if s, ok := r.(tbStop); ok {
						w.StopWhy = s.why
						return
					}
					if _, ok := r.(overrunPanic); ok {
						w.StopWhy = "overrun"
						return
					}
					w.Escaped = r
					w.EscapedStr = fmt.Sprintf("%v", r)
					w.EscapedStack = rapidFrames(string(debug.Stack()))
					w.StopWhy = "panic"
				}
			}()
			var tb rapid.TB = w.TB
			if o.WithCtx {
				tb = simTBCtx{w.TB}
			}
			if o.FDHeadroom > 0 {
				defer lowerFDLimit(o.FDHeadroom)()
			}
			rapid.Check(tb, in.Prop)
			w.StopWhy = "return"
		}()
	}

	if o.NoBubble {
		body()
		cr.finishWaiters(func() { time.Sleep(20 * time.Millisecond) })
	} else {
		func() {
			defer func() {
				if r := recover(); r != nil {
					cr.BubblePanic = fmt.Sprint(r)
				}
			}()
			synctest.Test(curT, func(t *testing.T) {
				w.inBubble = true
				body()
				cr.finishWaiters(synctest.Wait)
			})
		}()
	}
	cr.SimElapsed = w.clk.Elapsed
	cr.SnapAfter = Snapshot(".")
	cr.classify()
	return cr
}

func (cr *CheckRun) finishWaiters(wait func()) {
	w := cr.W
	w.verifyPending()
	wait()
	woken := 0
	drain := func() {
		for {
			select {
			case v := <-w.waiterDone:
				woken += v
				continue
			default:
			}
			break
		}
	}
	drain()
	if !w.inBubble {
		// no quiescence detection outside a bubble: give released waiters real time to report (up to 5 s), so that
		// only a waiter that is never released counts as leaked
		for i := 0; i < 2500 && woken < w.WaitersMade; i++ {
			time.Sleep(2 * time.Millisecond)
			drain()
		}
	}
	cr.WaitersWoken = woken
	cr.WaitersLeaked = w.WaitersMade - woken
	close(w.waiterFree)
	wait()
	// drain
	for {
		select {
		case <-w.waiterDone:
			continue
		default:
		}
		break
	}
}

var (
	reFailedAfter = regexp.MustCompile(`^\[rapid\] (failed|panic) after (\d+) tests: `)
	reSeed        = regexp.MustCompile(`-rapid\.seed=(\d+)`)
	reFailFile    = regexp.MustCompile(`-rapid\.failfile="((?:[^"\\]|\\.)*)"`)
	reOK          = regexp.MustCompile(`^\[rapid\] OK, passed (\d+) tests`)
	reOnlyGen     = regexp.MustCompile(`^\[rapid\] only generated (\d+) valid tests from (\d+) total`)
)

// classify assigns a phase to every invocation and parses the verdict from the TB calls.
func (cr *CheckRun) classify() {
	w := cr.W
	cr.Verdict = "none"
	for _, c := range w.TB.Calls {
		switch c.Method {
		case "Errorf":
			if m := reFailedAfter.FindStringSubmatch(c.Text); m != nil {
				cr.Verdict = map[string]string{"failed": "fail", "panic": "panic"}[m[1]]
				cr.AfterTests, _ = strconv.Atoi(m[2])
				cr.VerdictText, cr.VerdictSeq = c.Text, c.Seq
			} else if strings.HasPrefix(c.Text, "[rapid] flaky test") {
				cr.Verdict, cr.VerdictText, cr.VerdictSeq = "flaky", c.Text, c.Seq
			} else if reOnlyGen.MatchString(c.Text) {
				cr.Verdict, cr.VerdictText, cr.VerdictSeq = "onlygen", c.Text, c.Seq
			} else if cr.Verdict == "none" {
				cr.Verdict, cr.VerdictText, cr.VerdictSeq = "other", c.Text, c.Seq
			}
		case "Logf":
			if reOK.MatchString(c.Text) && cr.Verdict == "none" {
				cr.Verdict, cr.VerdictText, cr.VerdictSeq = "pass", c.Text, c.Seq
			}
		}
	}
	if cr.VerdictText != "" {
		if m := reSeed.FindStringSubmatch(cr.VerdictText); m != nil {
			cr.SeedPrinted, _ = strconv.ParseUint(m[1], 10, 64)
		}
		if m := reFailFile.FindStringSubmatch(cr.VerdictText); m != nil {
			if s, err := strconv.Unquote(`"` + m[1] + `"`); err == nil {
				cr.FailFileNamed = s
			}
		}
	}
	if cr.Verdict == "other" && curRC != nil {
		// an error report in words this harness does not know: its vocabulary is out of date, nothing can be judged
		curRC.V(viol("harness", "unrecognised-report", "Check reported an error in words this harness does not know: %q", oneLine(cr.VerdictText, 200)))
	}
	seenRandom := false
	seenRepro := false
	for _, inv := range w.Invs {
		if inv.Custom {
			inv.Phase = "custom"
			continue
		}
		failedVerdict := cr.Verdict == "fail" || cr.Verdict == "panic" || cr.Verdict == "flaky"
		switch {
		case failedVerdict && inv.SeqBegin > cr.VerdictSeq:
			inv.Phase = "final"
		case inv.Info.Random && !inv.Info.Persist:
			inv.Phase = "gen"
			seenRandom = true
		case inv.Info.Random && inv.Info.Persist:
			inv.Phase = "repro"
			seenRandom = true
			seenRepro = true
		case !seenRandom:
			inv.Phase = "failfile"
		case inv.Info.RawLog && !inv.Info.TBLog && seenRepro && !inv.Info.Persist:
			inv.Phase = "capture"
		case inv.Info.Persist:
			inv.Phase = "confirm"
		default:
			inv.Phase = "cand"
		}
	}
	// fail-file driven failures: capture happens without any random invocation
	if !seenRandom {
		for _, inv := range w.Invs {
			if inv.Phase == "failfile" && inv.Info.RawLog && !inv.Info.TBLog {
				inv.Phase = "capture"
			}
		}
	}
}

func (cr *CheckRun) ByPhase(ph string) []*Invocation {
	var out []*Invocation
	for _, inv := range cr.W.Invs {
		if inv.Phase == ph {
			out = append(out, inv)
		}
	}
	return out
}

func (cr *CheckRun) Final() *Invocation {
	f := cr.ByPhase("final")
	if len(f) == 0 {
		return nil
	}
	return f[len(f)-1]
}

// Original is the generation-phase invocation that findBug saw fail (the last gen invocation of a failing run).
func (cr *CheckRun) Original() *Invocation {
	g := cr.ByPhase("gen")
	if len(g) == 0 {
		return nil
	}
	return g[len(g)-1]
}

func (cr *CheckRun) Repro() *Invocation {
	r := cr.ByPhase("repro")
	if len(r) == 0 {
		return nil
	}
	return r[0]
}

// Shape is a hash of the invocation-phase sequence plus how each ended.
func (cr *CheckRun) Shape() uint64 {
	h := fnv.New64a()
	last := ""
	for _, inv := range cr.W.Invs {
		if inv.Custom {
			continue
		}
		k := inv.Phase + ":" + inv.SiteKey()
		if inv.Skipped {
			k += ":skip"
		}
		if k != last {
			h.Write([]byte(k))
			h.Write([]byte{0})
			last = k
		}
	}
	h.Write([]byte(cr.Verdict))
	return h.Sum64()
}

var reDur = regexp.MustCompile(`\(([0-9.]+(ns|µs|ms|s|m|h))+\)`)
var reFFName = regexp.MustCompile(`-\d[0-9A-Za-z.:_]{7,40}-\d+((-c\d+)?\.fail)`) // <time stamp in any digits-first format>-<pid>

func NormText(s string) string {
	s = reDur.ReplaceAllString(s, "(DUR)")
	s = reFFName.ReplaceAllString(s, "-TS-PID$1")
	s = rePtr.ReplaceAllString(s, "(*int)(PTR)")
	return s
}

// HistoryHash covers every draw of every invocation, every signal and the normalised TB texts.
func (cr *CheckRun) HistoryHash() uint64 {
	h := fnv.New64a()
	for _, e := range cr.W.Events {
		if e.Kind == EvTB && (e.A == "Name" || e.A == "Failed") {
			continue
		}
		fmt.Fprintf(h, "%d|%d|%s|%s|%d|%v\n", e.Kind, e.Inv, e.A, NormText(e.B), e.N, e.OK)
	}
	for _, inv := range cr.W.Invs {
		fmt.Fprintf(h, "I%d %v %v %d\n", inv.Idx, inv.Info.Random, inv.Info.Persist, len(inv.Info.Buf))
		for _, u := range inv.Info.Buf {
			fmt.Fprintf(h, "%x,", u)
		}
	}
	fmt.Fprintf(h, "%s|%s", cr.Verdict, cr.W.StopWhy)
	return h.Sum64()
}

// DrawLog of an invocation as one string.
func DrawLog(inv *Invocation) string {
	var b strings.Builder
	for _, d := range inv.Draws {
		fmt.Fprintf(&b, "%s=%s;", d.Label, d.Norm)
	}
	return b.String()
}

// DrawLogPruned: the draws that survive pruning (rejected action attempts removed), auto-numbered labels normalised
// (their numbers shift when attempts are removed).
func DrawLogPruned(inv *Invocation) string {
	var b strings.Builder
	for _, d := range inv.Draws {
		if d.Rejected {
			continue
		}
		l := d.Label
		if strings.HasPrefix(l, "#") {
			l = "#"
		}
		fmt.Fprintf(&b, "%s=%s;", l, d.Norm)
	}
	return b.String()
}

// LoggedDraws extracts "[rapid] draw L: V" lines sent to TB.Logf after seq.
func (cr *CheckRun) LoggedDraws(afterSeq int) []DrawRec {
	var out []DrawRec
	for _, c := range cr.W.TB.Calls {
		if c.Seq <= afterSeq || c.Method != "Logf" {
			continue
		}
		if strings.HasPrefix(c.Text, "[rapid] draw ") {
			rest := c.Text[len("[rapid] draw "):]
			i := strings.Index(rest, ": ")
			if i < 0 {
				continue
			}
			out = append(out, DrawRec{Label: rest[:i], Text: rest[i+2:]})
		}
	}
	return out
}

// drawLogInOtherWords: no "[rapid] draw L: V" line was found between the two TB sequence numbers although draws were
// received - but every received value IS printed there, in order, in lines of some other shape: the format of the draw
// log changed (harness vocabulary out of date: trouble), as opposed to the draws not being logged (a violation).
func (cr *CheckRun) drawLogInOtherWords(afterSeq, beforeSeq int, received []DrawRec) bool {
	if len(received) == 0 {
		return false
	}
	i := 0
	for _, c := range cr.W.TB.Calls {
		if c.Seq <= afterSeq || (beforeSeq > 0 && c.Seq >= beforeSeq) || (c.Method != "Logf" && c.Method != "Log") {
			continue
		}
		if strings.HasPrefix(c.Text, "[rapid] draw ") {
			return false
		}
		if i < len(received) && strings.Contains(c.Text, received[i].Text) {
			i++
		}
	}
	return i == len(received)
}

// Violation of one rule of one property.
type Violation struct {
	Rule string `json:"rule"`
	Sig  string `json:"sig"` // narrow behavioural signature (used by the known-findings filter)
	Msg  string `json:"msg"`
}

func viol(rule, sig, format string, args ...any) Violation {
	return Violation{rule, sig, fmt.Sprintf(format, args...)}
}

var rePtr = regexp.MustCompile(`\(\*int\)\(0x[0-9a-f]+\)`)

// rapidFrames keeps the frames of a stack dump that lie in rapid (where did the escaped panic come from).
func rapidFrames(st string) string {
	var out []string
	lines := strings.Split(st, "\n")
	for i := 0; i+1 < len(lines); i++ {
		if strings.HasPrefix(lines[i], "pgregory.net/rapid.") {
			loc := strings.TrimSpace(lines[i+1])
			if j := strings.Index(loc, " +0x"); j >= 0 {
				loc = loc[:j]
			}
			if k := strings.LastIndex(loc, "/"); k >= 0 {
				loc = loc[k+1:]
			}
			fn := lines[i]
			if j := strings.Index(fn, "("); j >= 0 && !strings.HasPrefix(fn[len("pgregory.net/rapid."):], "(") {
				fn = fn[:j]
			}
			out = append(out, strings.TrimPrefix(fn, "pgregory.net/rapid.")+"@"+loc)
			if len(out) >= 8 {
				break
			}
		}
	}
	return strings.Join(out, " < ")
}

// lowerFDLimit lowers the soft RLIMIT_NOFILE of the process to (descriptors open now + headroom) and returns the undo.
func lowerFDLimit(headroom int) func() {
	var old syscall.Rlimit
	if err := syscall.Getrlimit(syscall.RLIMIT_NOFILE, &old); err != nil {
		return func() {}
	}
	ents, err := os.ReadDir("/proc/self/fd")
	if err != nil {
		return func() {}
	}
	used := map[int]bool{}
	for _, e := range ents {
		if n, err := strconv.Atoi(e.Name()); err == nil {
			used[n] = true
		}
	}
	// the limit bounds the descriptor NUMBER: leave exactly `headroom` unused numbers below it
	free, l := 0, 0
	for free < headroom {
		if !used[l] {
			free++
		}
		l++
	}
	lim := old
	lim.Cur = uint64(l)
	if lim.Cur > old.Cur {
		return func() {}
	}
	if err := syscall.Setrlimit(syscall.RLIMIT_NOFILE, &lim); err != nil {
		return func() {}
	}
	return func() { _ = syscall.Setrlimit(syscall.RLIMIT_NOFILE, &old) }
}
