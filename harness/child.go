package h

import (
	"encoding/json"
	"fmt"
	"os"
	"os/exec"
	"path/filepath"
	"testing"
)

// A restart as a real new OS process: the same worker binary runs one Check in a child and reports its history.

type childSpec struct {
	Prog *Prog
	Opt  RunOpt
}

type childInv struct {
	Phase, EndState string
	Custom, Random  bool
	Persist, NoValid bool
	Buf             []uint64
	Draws           []DrawRec
	Signals         []SignalRec
	SeqBegin, SeqEnd int
}

type childReport struct {
	Verdict, VerdictText, StopWhy, Escaped, BubblePanic, FailFileNamed string
	AfterTests, VerdictSeq                                             int
	Overrun, TBFailed                                                  bool
	Invs                                                               []childInv
	Calls                                                              []TBCall
	SimElapsed                                                         int64
}

// RunCheckInChild is RunCheck executed by a fresh process (new pid, cold process state).
func RunCheckInChild(p *Prog, o RunOpt, scratch string) (*CheckRun, error) {
	if err := os.MkdirAll(scratch, 0o755); err != nil {
		return nil, err
	}
	abs, _ := filepath.Abs(o.Dir)
	o.Dir = abs
	sb, err := json.Marshal(childSpec{p, o})
	if err != nil {
		return nil, err
	}
	specPath := filepath.Join(scratch, "child-spec.json")
	outPath := filepath.Join(scratch, "child-report.json")
	_ = os.Remove(outPath)
	if err := os.WriteFile(specPath, sb, 0o644); err != nil {
		return nil, err
	}
	cmd := exec.Command(os.Args[0], "-test.run", "^TestChildCheck$", "-test.timeout", "0", "-test.count", "1")
	cmd.Dir = scratch
	cmd.Env = append(os.Environ(), "VERIF_CHILD_SPEC="+specPath, "VERIF_CHILD_OUT="+outPath)
	out, runErr := cmd.CombinedOutput()
	rb, err := os.ReadFile(outPath)
	if err != nil {
		return nil, fmt.Errorf("child produced no report: %v %v\n%s", runErr, err, oneLine(string(out), 600))
	}
	var rep childReport
	if err := json.Unmarshal(rb, &rep); err != nil {
		return nil, err
	}
	w := &World{Overrun: rep.Overrun, EscapedStr: rep.Escaped, StopWhy: rep.StopWhy, clk: newClock(o.Clock)}
	if rep.Escaped != "" {
		w.Escaped = rep.Escaped
	}
	w.TB = &simTB{w: w, name: o.Name, failed: rep.TBFailed, Calls: rep.Calls}
	for i, ci := range rep.Invs {
		inv := &Invocation{Idx: i, Phase: ci.Phase, EndState: ci.EndState, Custom: ci.Custom, NoValidAction: ci.NoValid, Draws: ci.Draws, Signals: ci.Signals, SeqBegin: ci.SeqBegin, SeqEnd: ci.SeqEnd, Ended: true, Verified: true}
		inv.Info.Random, inv.Info.Persist, inv.Info.Buf = ci.Random, ci.Persist, ci.Buf
		inv.Returned = ci.EndState == "returned"
		inv.Skipped = ci.EndState == "skip"
		w.Invs = append(w.Invs, inv)
	}
	cr := &CheckRun{W: w, Prog: p, Flags: o.Flags, Clock: o.Clock, Name: o.Name, Dir: o.Dir, Verdict: rep.Verdict, VerdictText: rep.VerdictText,
		VerdictSeq: rep.VerdictSeq, AfterTests: rep.AfterTests, BubblePanic: rep.BubblePanic, FailFileNamed: rep.FailFileNamed}
	return cr, nil
}

// childMain is the body of TestChildCheck.
func childMain(t *testing.T) {
	sb, err := os.ReadFile(os.Getenv("VERIF_CHILD_SPEC"))
	if err != nil {
		t.Fatal(err)
	}
	var cs childSpec
	if err := json.Unmarshal(sb, &cs); err != nil {
		t.Fatal(err)
	}
	curT = t
	cr := RunCheck(cs.Prog, cs.Opt)
	rep := childReport{Verdict: cr.Verdict, VerdictText: cr.VerdictText, StopWhy: cr.W.StopWhy, Escaped: cr.W.EscapedStr, BubblePanic: cr.BubblePanic,
		FailFileNamed: cr.FailFileNamed, AfterTests: cr.AfterTests, VerdictSeq: cr.VerdictSeq, Overrun: cr.W.Overrun, TBFailed: cr.W.TB.failed, Calls: cr.W.TB.Calls,
		SimElapsed: int64(cr.SimElapsed)}
	for _, inv := range cr.W.Invs {
		rep.Invs = append(rep.Invs, childInv{Phase: inv.Phase, EndState: inv.EndState, Custom: inv.Custom, Random: inv.Info.Random, Persist: inv.Info.Persist,
			NoValid: inv.NoValidAction, Buf: inv.Info.Buf, Draws: inv.Draws, Signals: inv.Signals, SeqBegin: inv.SeqBegin, SeqEnd: inv.SeqEnd})
	}
	b, _ := json.Marshal(rep)
	if err := os.WriteFile(os.Getenv("VERIF_CHILD_OUT"), b, 0o644); err != nil {
		t.Fatal(err)
	}
}
