package h

import (
	"fmt"
	"strings"
	"os"
	"path/filepath"
	"runtime/debug"
	"time"
)

// The worker: a `go test -c` binary (synctest.Test needs a *testing.T). One OS process, one run at a time.

type Spec struct {
	Property string    `json:"property"`
	Seed     uint64    `json:"seed"`
	Tier     string    `json:"tier"`
	Lo       int       `json:"lo"`     // first run index
	Hi       int       `json:"hi"`     // one past the last run index (exclusive)
	Stride   int       `json:"stride"` // index step (number of workers)
	BudgetS  float64   `json:"budget_s"`
	Out      string    `json:"out"`
	Scratch  string    `json:"scratch"`
	Tapes    [][]Entry `json:"tapes"` // replay mode: execute exactly these tapes
	Verbose  bool      `json:"verbose"`
	KeepTape bool      `json:"keep_tape"`
	MaxRuns  int       `json:"max_runs"` // stop after this many runs (the driver starts a fresh process for the rest)
}

type Result struct {
	Idx     int            `json:"idx"`
	Viols   []Violation    `json:"viols,omitempty"`
	Stats   map[string]int `json:"stats"`
	Shapes  []uint64       `json:"shapes"`
	Hash    uint64         `json:"hash"`
	SimNs   int64          `json:"sim_ns"`
	Sample  string         `json:"sample,omitempty"`
	Tape    []Entry        `json:"tape,omitempty"`
	Trace   string         `json:"trace,omitempty"`
	Harness string         `json:"harness,omitempty"` // harness trouble (never a verdict)
	Nontriv bool           `json:"nontriv"`
	Key     uint64         `json:"key"` // distinctness key
	WallUs  int64          `json:"wall_us"`
}

type RunCtx struct {
	T       *Tape
	Tier    string
	Dir     string
	Stats   map[string]int
	Viols   []Violation
	Shapes  []uint64
	hash    uint64
	SimNs   int64
	Sample  string
	Trace   []string
	Nontriv bool
	Key     uint64
	Verbose bool
	subdir  int
}

func (rc *RunCtx) Inc(k string)        { rc.Stats[k]++ }
func (rc *RunCtx) Add(k string, n int) { rc.Stats[k] += n }
func (rc *RunCtx) V(v Violation)       { rc.Viols = append(rc.Viols, v) }
func (rc *RunCtx) Tracef(f string, a ...any) {
	rc.Trace = append(rc.Trace, fmt.Sprintf(f, a...))
}
func (rc *RunCtx) MixHash(h uint64) { rc.hash = MixSeed(rc.hash, h) }

// FreshDir returns a new empty directory below the run's scratch directory.
func (rc *RunCtx) FreshDir() string {
	rc.subdir++
	d := filepath.Join(rc.Dir, fmt.Sprintf("d%d", rc.subdir))
	if err := os.MkdirAll(d, 0o755); err != nil {
		panic("harness: " + err.Error())
	}
	return d
}

// Note records a finished CheckRun into the run context (hash, shapes, simulated time, generic stats).
func (rc *RunCtx) Note(cr *CheckRun) {
	rc.MixHash(cr.HistoryHash())
	rc.Shapes = append(rc.Shapes, cr.Shape())
	rc.SimNs += int64(cr.SimElapsed)
	rc.Inc("checks_run")
	rc.Add("invocations", len(cr.W.Invs))
	rc.Inc("verdict." + cr.Verdict)
	rc.Inc("clock." + cr.Clock.Kind.String())
	rc.Add("fault.clock_jump", cr.W.clk.Jumps)
	if cr.W.Overrun {
		rc.Inc("overrun")
	}
	if cr.BubblePanic != "" {
		rc.Inc("bubble_panic")
	}
	rc.Tracef("program:\n%s", cr.Prog)
	if rc.Verbose {
		for k, inv := range cr.W.Invs {
			if k >= 40 && k < len(cr.W.Invs)-40 {
				if k == 40 {
					rc.Tracef("  … %d invocations not shown …", len(cr.W.Invs)-80)
				}
				continue
			}
			rc.Tracef("  inv %d %s custom=%v end=%s site=%s buf=%s draws={%s} actions=%v", inv.Idx, inv.Phase, inv.Custom, inv.EndState, inv.SiteKey(), bufStr(inv.Info.Buf), drawsStr(inv.Draws), inv.Actions)
			if inv.Info.Persist {
				rc.Tracef("     recorded %s", bufStr(inv.RecData))
				for _, g := range inv.RecGroups {
					if g.Discard || g.Standalone {
						rc.Tracef("       group [%d,%d) %q standalone=%v discard=%v", g.Begin, g.End, g.Label, g.Standalone, g.Discard)
					}
				}
			}
		}
	}
	rc.Tracef("Check(name=%q %v clock=%v) -> verdict=%s stop=%s invocations=%d sim=%v", cr.Name, cr.Flags, cr.Clock, cr.Verdict, cr.W.StopWhy, len(cr.W.Invs), cr.SimElapsed)
}

// emergency, when set, writes the result of the current run with one more violation and ends the worker process cleanly
// (the driver starts a fresh worker for the remaining indices). Used when nothing can safely run on, e.g. after a deadlock.
var emergency func(v Violation)
var curRC *RunCtx
var curIdx int
var curProp string

// curTier: the thorough tier also samples larger bounds (longer programs, more goroutines and operations).
var curTier string

type Scenario func(rc *RunCtx)

var scenarios = map[string]Scenario{}

func runOne(spec *Spec, idx int, tape *Tape) (res Result) {
	start := time.Now()
	dir := filepath.Join(spec.Scratch, fmt.Sprintf("run-%d-%d", os.Getpid(), idx))
	_ = os.RemoveAll(dir)
	if err := os.MkdirAll(dir, 0o755); err != nil {
		return Result{Idx: idx, Harness: err.Error()}
	}
	defer os.RemoveAll(dir)
	rc := &RunCtx{T: tape, Tier: spec.Tier, Dir: dir, Stats: map[string]int{}, Verbose: spec.Verbose}
	curTier = spec.Tier
	curRC, curIdx, curProp = rc, idx, spec.Property
	func() {
		defer func() {
			if r := recover(); r != nil {
				res.Harness = fmt.Sprintf("harness panic: %v\n%s", r, debug.Stack())
			}
		}()
		scenarios[spec.Property](rc)
	}()
	res.Idx = idx
	res.Viols = rc.Viols
	res.Stats = rc.Stats
	res.Shapes = rc.Shapes
	res.Hash = rc.hash
	res.SimNs = rc.SimNs
	res.Sample = rc.Sample
	res.Nontriv = rc.Nontriv
	res.Key = rc.Key
	if len(rc.Viols) > 0 || spec.KeepTape || spec.Tapes != nil {
		res.Tape = tape.Out
		var tb strings.Builder
		for _, l := range rc.Trace {
			if tb.Len() > 1<<20 {
				tb.WriteString("… (trace truncated)\n")
				break
			}
			tb.WriteString(l)
			tb.WriteString("\n")
		}
		res.Trace = tb.String()
	}
	res.WallUs = time.Since(start).Microseconds()
	return res
}

