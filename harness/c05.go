package h

import (
	"fmt"
	"time"
)

// C05 — minimization keeps the same failure and only ever gets smaller.

func init() { scenarios["C05"] = scenarioC05 }

func acceptedSeq(cr *CheckRun) []*Invocation { return cr.ByPhase("confirm") }

// firstFailing: the failure originally found (generation phase), or the first fail-file replay.
func firstFailing(cr *CheckRun) *Invocation {
	if o := cr.Original(); o != nil {
		return o
	}
	if ff := cr.ByPhase("failfile"); len(ff) > 0 {
		return ff[0]
	}
	return nil
}

func scenarioC05(rc *RunCtx) {
	t := rc.T
	pf := failingProfile(t)
	pf.MinFail, pf.MaxFail = 2, 4
	pf.FatalPct = 80
	pf.FailCondEasy = t.Chance("pf.easy", 60) // overlapping conditions: candidates can slip from one site to another
	prog := GenProg(t, pf)
	if t.Chance("c05.template", 50) {
		prog = c05Template(t)
	}
	fl := genFlags(t, 30)
	fl.NoFailFile = true
	fl.ShrinkTime = []time.Duration{time.Hour, 30 * time.Second, time.Second, 50 * time.Millisecond}[t.Weighted("c05.shrinktime", 4, 2, 2, 1)]
	name := genName(t, false)

	frozen := RunCheck(prog, RunOpt{Name: name, Dir: rc.FreshDir(), Flags: fl, Clock: ClockPolicy{Kind: ClkFrozen}})
	rc.Note(frozen)
	rc.Sample = fmt.Sprintf("%v verdict=%s accepted=%d invocations=%d\n%s", fl, frozen.Verdict, len(acceptedSeq(frozen)), len(frozen.W.Invs), prog)
	rc.Key = MixSeed(HashString(prog.String()), fl.Seed, uint64(fl.Checks))
	if frozen.W.Overrun {
		rc.Inc("probe.frozen_overrun_inconclusive")
		return
	}
	judgeC05(rc, frozen)
	if !failedVerdict(frozen) || frozen.Verdict == "flaky" {
		return
	}
	rc.Nontriv = len(acceptedSeq(frozen)) > 0
	if rc.Nontriv {
		rc.Inc("probe.frozen_run_with_accepted_steps")
	}
	rc.Inc("probe.frozen_terminated")

	// truncation: the same tape with the clock cut at k
	ncuts := t.Int("c05.ncuts", 1, 3)
	calls := frozen.W.clk.calls
	for i := 0; i < ncuts; i++ {
		frac := int(t.Draw("clock.frac", 4095))
		deltas := []time.Duration{fl.ShrinkTime, fl.ShrinkTime + 1, fl.ShrinkTime - 1, 2 * fl.ShrinkTime, fl.ShrinkTime / 2}
		pol := ClockPolicy{Kind: ClkCut, K: frac * calls / 4096, Delta: deltas[t.Pick("clock.delta", len(deltas))]}
		if t.Chance("c05.drip", 15) {
			pol = ClockPolicy{Kind: ClkDrip, Sub: t.Draw("clock.sub", 1<<20)}
		}
		cut := RunCheck(prog, RunOpt{Name: name, Dir: rc.FreshDir(), Flags: fl, Clock: pol})
		rc.Note(cut)
		notePhaseCut(rc, cut)
		if cut.W.Overrun {
			continue
		}
		judgeC05(rc, cut)
		judgeC05Prefix(rc, frozen, cut)
	}
}

func judgeC05(rc *RunCtx, cr *CheckRun) {
	if cr.W.Escaped != nil || cr.BubblePanic != "" {
		rc.V(viol("C05.crash", "escaped", "Check panicked: %s %s", cr.W.EscapedStr, cr.BubblePanic))
		return
	}
	if cr.Verdict != "fail" && cr.Verdict != "panic" {
		return
	}
	O := firstFailing(cr)
	F := cr.Final()
	if O == nil || F == nil {
		return
	}
	// R1: same failure site
	if F.SiteKey() != O.SiteKey() {
		rc.V(viol("C05.R1", "site-changed", "failure originally found at %s, minimized failure presented at %s", O.SiteKey(), F.SiteKey()))
	}
	acc := acceptedSeq(cr)
	for _, a := range acc {
		if a.SiteKey() != O.SiteKey() {
			rc.V(viol("C05.R1", "accepted-other-site", "accepted candidate (inv %d) fails at %s, original at %s", a.Idx, a.SiteKey(), O.SiteKey()))
			break
		}
	}
	// R2: strictly decreasing in length-then-lexicographic order
	R := cr.Repro()
	var prev []uint64
	havePrev := false
	if R != nil {
		prev, havePrev = R.RecData, true
	}
	for i, a := range acc {
		if havePrev {
			c := cmpBuf(a.Info.Buf, prev)
			if c > 0 || (c == 0 && i > 0) {
				rc.V(viol("C05.R2", "not-strictly-smaller", "accepted step %d: %s is not strictly smaller than its predecessor %s", i, bufStr(a.Info.Buf), bufStr(prev)))
				break
			}
			if c == 0 && i == 0 {
				// equal to the unpruned original can only happen if nothing was pruned; still not a strict decrease
				rc.V(viol("C05.R2", "not-strictly-smaller", "first accepted step equals the original recording %s", bufStr(prev)))
				break
			}
		}
		prev, havePrev = a.Info.Buf, true
	}
	if havePrev && cmpBuf(F.Info.Buf, prev) > 0 {
		rc.V(viol("C05.R2", "result-larger", "minimized bitstream %s is larger than %s", bufStr(F.Info.Buf), bufStr(prev)))
	}
	if R != nil && cmpBuf(F.Info.Buf, R.RecData) > 0 {
		rc.V(viol("C05.R2", "result-larger-than-original", "minimized bitstream %s is larger than the original %s", bufStr(F.Info.Buf), bufStr(R.RecData)))
	}
	// every candidate tried is smaller than the current best (a candidate that is not smaller must never be executed)
	if len(acc) > 0 {
		rc.Inc("probe.accepted_sequences_checked")
		rc.Add("accepted_steps", len(acc))
	}
}

// judgeC05Prefix (R4): a time limit truncates the trajectory and does nothing else.
func judgeC05Prefix(rc *RunCtx, frozen, cut *CheckRun) {
	if !failedVerdict(cut) {
		// the jump landed before the failure was found (early exit) — nothing to compare
		rc.Inc("probe.cut_before_failure_found")
		return
	}
	if cut.Verdict == "flaky" {
		return // reported by C01
	}
	fa, ca := acceptedSeq(frozen), acceptedSeq(cut)
	if len(ca) > len(fa) {
		rc.V(viol("C05.R4", "cut-longer", "the time-limited run accepted %d steps, the unlimited run only %d", len(ca), len(fa)))
		return
	}
	for i := range ca {
		if cmpBuf(ca[i].Info.Buf, fa[i].Info.Buf) != 0 {
			rc.V(viol("C05.R4", "not-a-prefix", "accepted step %d differs: limited %s vs unlimited %s", i, bufStr(ca[i].Info.Buf), bufStr(fa[i].Info.Buf)))
			return
		}
	}
	if len(ca) < len(fa) {
		rc.Inc("fault.deadline_shortened_minimization")
	} else {
		rc.Inc("probe.cut_did_not_shorten")
	}
	F := cut.Final()
	if F == nil {
		return
	}
	var ref *Invocation
	if len(ca) > 0 {
		ref = ca[len(ca)-1]
	} else {
		ref = cut.Repro()
		if ref == nil {
			ref = firstFailing(cut)
		}
	}
	if ref != nil && DrawLogPruned(F) != DrawLogPruned(ref) {
		rc.V(viol("C05.R4", "result-not-last-accepted", "the limited run presents {%s} but its last accepted step drew {%s}", drawsStr(F.Draws), drawsStr(ref.Draws)))
	}
}

// c05Template: the shape of a typical property test - collections of filtered elements with thresholds on their sum and
// length at distinct failure sites - which gives the minimizer long trajectories full of rejected attempts.
func c05Template(t *Tape) *Prog {
	p := &Prog{NVars: 3, NSites: 3}
	filt := []string{"filter_even", "filter_rare"}[t.Pick("tmpl.filter", 2)]
	elem := &GenSpec{K: filt, Sub: &GenSpec{K: "intrange", A: 0, B: []int{100, 1000, 5000}[t.Pick("tmpl.range", 3)]}}
	xs := &GenSpec{K: "slicen", A: 0, B: t.Int("tmpl.maxlen", 4, 12), Sub: elem}
	if t.Chance("tmpl.unbounded", 30) {
		xs = &GenSpec{K: "sliceof", Sub: elem}
	}
	p.Body = append(p.Body, &Stmt{K: SDraw, Var: 0, Gen: xs, Label: "xs"})
	if t.Chance("tmpl.second", 60) {
		second := []*GenSpec{{K: "distinct", A: t.Int("tmpl.dom", 1, 6)}, {K: "mapbool", Sub: &GenSpec{K: "uint8"}}, {K: "stringn", A: t.Int("tmpl.strmax", 0, 8)}}[t.Pick("tmpl.secondkind", 3)]
		p.Body = append(p.Body, &Stmt{K: SDraw, Var: 1, Gen: second, Label: ""})
	}
	sumT := int64([]int{50, 200, 500, 1500, 4000}[t.Pick("tmpl.sum", 5)])
	lenT := int64(t.Int("tmpl.len", 2, 7))
	kinds := []FailKind{FKFatalf, FKFatal, FKPanicStr, FKIndex, FKFailNow}
	p.Body = append(p.Body,
		&Stmt{K: SIf, Cond: &Cond{Var: 0, F: 1, Op: OpGE, C: sumT}, Body: []*Stmt{{K: SFail, FKind: kinds[t.Pick("tmpl.k1", len(kinds))], Site: 0}}},
		&Stmt{K: SIf, Cond: &Cond{Var: 0, F: 0, Op: OpGE, C: lenT}, Body: []*Stmt{{K: SFail, FKind: kinds[t.Pick("tmpl.k2", len(kinds))], Site: 1}}},
	)
	if t.Chance("tmpl.nonfatal", 40) {
		p.Body = append(p.Body, &Stmt{K: SIf, Cond: &Cond{Var: 1, F: 0, Op: OpGE, C: 2}, Body: []*Stmt{{K: SFail, FKind: FKErrorf, Site: 2}}})
	}
	if p.SiteStyle = t.Weighted("tmpl.sitestyle", 6, 2, 1); p.SiteStyle == 2 {
		coerceKinds(p.Body)
	}
	return p
}
