package h

import (
	"encoding/json"
	"flag"
	"fmt"
	"os"
	"runtime"
	"strings"
	"testing"
)

// E3 child modes: the same test binary, run under strace by the driver.
//
//	VERIF_E3=save   run one failing Check with fail files enabled in the current directory (the process that gets killed)
//	VERIF_E3=rerun  run the same test again in that directory and report what it did (judge J2)
//
// The main goroutine stays locked to the main thread (strace's injection counters are per thread).

func init() {
	if os.Getenv("VERIF_E3") != "" {
		runtime.LockOSThread()
	}
}

type E3Workload struct {
	Name      string `json:"name"`
	Lines     int    `json:"lines"`     // number of captured output lines -> number of write calls
	LineLen   int    `json:"line_len"`
	Words     int    `json:"words"`     // approximate length of the minimized bitstream
	Seed      uint64 `json:"seed"`
	FailKind  int    `json:"fail_kind"`
	Double    bool   `json:"double"` // two failing Checks of the same test in one process (normally within the same second)
	NoDraw    bool   `json:"no_draw"`
	Flaky     bool   `json:"flaky"` // the first execution fails at one site, every later one at another ("flaky test" report)
}

func (wl E3Workload) Prog() *Prog {
	p := &Prog{NVars: 2, NSites: 1}
	// a slice of exactly >= Words/… elements keeps the minimized bitstream at roughly the requested size
	if !wl.NoDraw {
		p.Body = append(p.Body, &Stmt{K: SDraw, Var: 0, Gen: &GenSpec{K: "slicen", A: wl.Words, B: wl.Words + 3, Sub: &GenSpec{K: "uint8"}}, Label: "xs"})
	}
	for i := 0; i < wl.Lines; i++ {
		p.Body = append(p.Body, &Stmt{K: SLog, LogK: 5, LogN: wl.LineLen + 2*i})
	}
	if wl.Flaky {
		p.NSites = 2
		p.Body = append(p.Body, &Stmt{K: SIf, Cond: &Cond{Op: OpInvLT, C: 1}, Body: []*Stmt{{K: SFail, FKind: FailKind(wl.FailKind), Site: 0}}})
		p.Body = append(p.Body, &Stmt{K: SFail, FKind: FailKind(wl.FailKind), Site: 1})
		return p
	}
	p.Body = append(p.Body, &Stmt{K: SFail, FKind: FailKind(wl.FailKind), Site: 0})
	return p
}

// SecondProg: as Prog, but the very first invocation of the run (the replay of the fail file of the first Check) passes.
func (wl E3Workload) SecondProg() *Prog {
	p := wl.Prog()
	last := p.Body[len(p.Body)-1]
	p.Body[len(p.Body)-1] = &Stmt{K: SIf, Cond: &Cond{Op: OpInvGE, C: 1}, Body: []*Stmt{last}}
	return p
}

type E3Report struct {
	Verdict      string   `json:"verdict"`
	AfterTests   int      `json:"after_tests"`
	FailFilePhase int     `json:"failfile_invocations"`
	RandomCases  int      `json:"random_cases"`
	FirstDraws   string   `json:"first_draws"`
	FirstBuf     []uint64 `json:"first_buf"`
	IgnoredLogs  []string `json:"ignored_logs"`
	TBFailed     bool     `json:"tb_failed"`
	Escaped      string   `json:"escaped"`
	FailFileNamed string  `json:"fail_file_named"`
	FinalBuf     []uint64 `json:"final_buf"`
	FinalDraws   string   `json:"final_draws"`
}

func e3Main(mode string) int {
	flag.Parse()
	var wl E3Workload
	if err := json.Unmarshal([]byte(os.Getenv("VERIF_E3_WORKLOAD")), &wl); err != nil {
		fmt.Fprintln(os.Stderr, "e3: bad workload:", err)
		return 3
	}
	fl := Flags{Checks: 3, Steps: 3, Seed: wl.Seed, ShrinkTime: 0}
	if mode == "rerun" {
		fl.NoFailFile = true
		fl.Seed = wl.Seed + 999
	}
	cr := RunCheck(wl.Prog(), RunOpt{Name: wl.Name, Dir: ".", Flags: fl, Clock: ClockPolicy{Kind: ClkFrozen}, NoBubble: true})
	if wl.Double && mode == "save" {
		f2 := fl
		f2.Seed = wl.Seed + 77
		cr = RunCheck(wl.SecondProg(), RunOpt{Name: wl.Name, Dir: ".", Flags: f2, Clock: ClockPolicy{Kind: ClkFrozen}, NoBubble: true})
	}
	rep := E3Report{Verdict: cr.Verdict, AfterTests: cr.AfterTests, TBFailed: cr.W.TB.failed, Escaped: cr.W.EscapedStr, FailFileNamed: cr.FailFileNamed}
	rep.FailFilePhase = len(cr.ByPhase("failfile"))
	rep.RandomCases = len(randomInvs(cr))
	for _, inv := range cr.W.Invs {
		if !inv.Custom {
			rep.FirstDraws = DrawLog(inv)
			rep.FirstBuf = inv.Info.Buf
			break
		}
	}
	if F := cr.Final(); F != nil {
		rep.FinalBuf = F.Info.Buf
		rep.FinalDraws = DrawLog(F)
	}
	for _, c := range cr.W.TB.Texts("Logf", "Log") {
		if strings.Contains(c.Text, "fail file") {
			rep.IgnoredLogs = append(rep.IgnoredLogs, c.Text)
		}
	}
	b, _ := json.Marshal(rep)
	if out := os.Getenv("VERIF_E3_OUT"); out != "" {
		_ = os.WriteFile(out, b, 0o644)
	}
	return 0
}

func TestMain(m *testing.M) {
	if mode := os.Getenv("VERIF_E3"); mode != "" {
		os.Exit(e3Main(mode))
	}
	os.Exit(m.Run())
}
