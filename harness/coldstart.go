//go:build coldstart

package h

import "pgregory.net/rapid"

func init() { resetProcessState = rapid.VerifResetProcessState }
