package h

import (
	"fmt"
)

// C10 — every invocation gets a live context and has all its cleanups run, LIFO.

func init() { scenarios["C10"] = scenarioC10 }

func scenarioC10(rc *RunCtx) {
	t := rc.T
	pf := failingProfile(t)
	pf.PCleanup = 60
	pf.PCtx = 40
	pf.PPark = 50
	pf.PCustom = 40
	pf.PCleanupFail = 50
	pf.PRepeat = 30
	pf.PSkip = 25
	pf.MinFail, pf.MaxFail = 0, 3
	pf.CustomFail = 20
	prog := GenProg(t, pf)
	fl := genFlags(t, 20)
	cc := genClockChoice(t, fl.ShrinkTime, 5, 2, 1, 3, 0)
	name := genName(t, false)
	_, cr := runWithClock(rc, prog, RunOpt{Name: name, Dir: rc.FreshDir(), Flags: fl, WithCtx: t.Chance("tb.ctx", 30)}, cc, rc.FreshDir())
	rc.Sample = fmt.Sprintf("%v clock=%v verdict=%s invocations=%d waiters=%d\n%s", fl, cr.Clock, cr.Verdict, len(cr.W.Invs), cr.W.WaitersMade, prog)
	rc.Key = MixSeed(HashString(prog.String()), fl.Seed, uint64(fl.Checks), uint64(cr.Clock.Kind), uint64(cr.Clock.K))
	judgeBrackets(rc, cr, "C10")
	nclean, nctx := 0, 0
	kinds := map[string]bool{}
	for _, inv := range cr.W.Invs {
		nclean += len(inv.CleanReg)
		nctx += len(inv.Ctxs)
		if len(inv.CleanReg) > 0 || len(inv.Ctxs) > 0 {
			kinds[inv.Phase] = true
			rc.Inc("probe.bracket_in_phase." + inv.Phase)
			rc.Inc("probe.bracket_end_state." + inv.EndState)
		}
	}
	rc.Add("cleanups_registered", nclean)
	rc.Add("context_samples", nctx)
	rc.Add("waiters_parked", cr.W.WaitersMade)
	rc.Nontriv = nclean+nctx > 0
}

func judgeBrackets(rc *RunCtx, cr *CheckRun, rule string) {
	w := cr.W
	if w.Overrun {
		return
	}
	if cr.BubblePanic != "" {
		rc.V(viol(rule+".R5", "bubble-panic", "bubble ended abnormally: %s", cr.BubblePanic))
		return
	}
	// index events by invocation
	byInv := map[int][]Event{}
	for _, e := range w.Events {
		if e.Inv >= 0 {
			byInv[e.Inv] = append(byInv[e.Inv], e)
		}
	}
	for _, inv := range w.Invs {
		evs := byInv[inv.Idx]
		// R1: live and identical during the call
		var first *CtxRec
		for i := range inv.Ctxs {
			c := &inv.Ctxs[i]
			if c.InCleanup {
				continue
			}
			if first == nil {
				first = c
			} else if c.Ctx != first.Ctx {
				rc.V(viol(rule+".R1", "context-changed", "invocation %d (%s): T.Context() returned two different contexts during one call", inv.Idx, inv.Phase))
				return
			}
		}
		var stack []int
		ran := map[int]int{}
		for _, e := range evs {
			switch e.Kind {
			case EvCtxSample:
				if e.A != "cleanup" && !e.OK {
					rc.V(viol(rule+".R1", "context-dead-during-call", "invocation %d (%s): T.Context() already cancelled during the call (%s)", inv.Idx, inv.Phase, e.A))
					return
				}
				if e.A == "cleanup" && e.OK {
					rc.V(viol(rule+".R2", "context-live-in-cleanup", "invocation %d (%s): T.Context() obtained inside a cleanup function is not cancelled", inv.Idx, inv.Phase))
					return
				}
			case EvCleanupReg:
				stack = append(stack, e.N)
			case EvCleanupRun:
				ran[e.N]++
				if !e.OK {
					rc.V(viol(rule+".R2", "cleanup-before-cancel", "invocation %d (%s): cleanup #%d ran while a context of the call was still live", inv.Idx, inv.Phase, e.N))
					return
				}
				if len(stack) == 0 || stack[len(stack)-1] != e.N {
					rc.V(viol(rule+".R3", "not-lifo", "invocation %d (%s): cleanup #%d ran out of order (stack %v)", inv.Idx, inv.Phase, e.N, stack))
					return
				}
				stack = stack[:len(stack)-1]
				if e.Seq < inv.SeqEnd || inv.SeqEnd == 0 {
					rc.V(viol(rule+".R3", "cleanup-during-call", "invocation %d (%s): cleanup #%d ran before the call returned", inv.Idx, inv.Phase, e.N))
					return
				}
			}
		}
		for id, n := range ran {
			if n != 1 {
				rc.V(viol(rule+".R3", "cleanup-ran-twice", "invocation %d (%s): cleanup #%d ran %d times", inv.Idx, inv.Phase, id, n))
				return
			}
		}
		if !inv.Ended {
			continue
		}
		if !inv.Verified {
			rc.V(viol("harness", "unverified-bracket", "invocation %d never reached an observation point", inv.Idx))
			return
		}
		if inv.CleanupsPending != 0 {
			rc.V(viol(rule+".R4", "cleanups-not-run", "invocation %d (%s, ended %s): %d of %d registered cleanups had not run when the next invocation began / Check returned", inv.Idx, inv.Phase, inv.EndState, inv.CleanupsPending, len(inv.CleanReg)))
			return
		}
		if inv.CtxOpenAtNext != 0 {
			rc.V(viol(rule+".R2", "context-not-cancelled", "invocation %d (%s, ended %s): its context was still live when the next invocation began / Check returned", inv.Idx, inv.Phase, inv.EndState))
			return
		}
	}
	if cr.WaitersLeaked != 0 {
		rc.V(viol(rule+".R5", "waiter-leaked", "%d of %d goroutines waiting on T.Context().Done() were never released", cr.WaitersLeaked, w.WaitersMade))
	}
}
