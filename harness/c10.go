package h

import (
	"fmt"
	"testing"
	"time"

	"pgregory.net/rapid"
)

// C10 — every invocation gets a live context and has all its cleanups run, LIFO.

func init() { scenarios["C10"] = scenarioC10 }

func scenarioC10(rc *RunCtx) {
	t := rc.T
	pf := failingProfile(t)
	pf.PCleanup = 60
	pf.PCtx = 40
	pf.PPark = 50
	pf.PCustom = 40
	pf.PCleanupFail = 50
	pf.PCleanupSkip = 30
	pf.PRepeat = 30
	pf.PSkip = 25
	pf.MinFail, pf.MaxFail = 0, 3
	pf.CustomFail = 20
	prog := GenProg(t, pf)
	switch t.Weighted("c10.leg", 7, 2, 2) {
	case 1:
		scenarioC10Example(rc, prog)
		return
	case 2:
		scenarioC10Fuzz(rc, prog)
		return
	}
	fl := genFlags(t, 20)
	cc := genClockChoice(t, fl.ShrinkTime, 5, 2, 1, 3, 0)
	name := genName(t, false)
	_, cr := runWithClock(rc, prog, RunOpt{Name: name, Dir: rc.FreshDir(), Flags: fl, WithCtx: t.Chance("tb.ctx", 30)}, cc, rc.FreshDir())
	rc.Sample = fmt.Sprintf("%v clock=%v verdict=%s invocations=%d waiters=%d\n%s", fl, cr.Clock, cr.Verdict, len(cr.W.Invs), cr.W.WaitersMade, prog)
	rc.Key = MixSeed(HashString(prog.String()), fl.Seed, uint64(fl.Checks), uint64(cr.Clock.Kind), uint64(cr.Clock.K))
	judgeBrackets(rc, cr, "C10")
	if failedVerdict(cr) && !fl.NoFailFile && len(newFailFiles(cr)) == 1 {
		// the invocation kind "fail-file replay": run the same test again over the same directory
		f2 := fl
		f2.NoFailFile = true
		r2 := RunCheck(prog, RunOpt{Name: name, Dir: cr.Dir, Flags: f2, Clock: ClockPolicy{Kind: ClkFrozen}})
		rc.Note(r2)
		judgeBrackets(rc, r2, "C10")
		for _, inv := range r2.W.Invs {
			if inv.Phase == "failfile" && (len(inv.CleanReg) > 0 || len(inv.Ctxs) > 0) {
				rc.Inc("probe.bracket_in_phase.failfile")
			}
		}
	}
	nclean, nctx := 0, 0
	kinds := map[string]bool{}
	for _, inv := range cr.W.Invs {
		nclean += len(inv.CleanReg)
		nctx += len(inv.Ctxs)
		if len(inv.CleanReg) > 0 || len(inv.Ctxs) > 0 {
			kinds[inv.Phase] = true
			rc.Inc("probe.bracket_in_phase." + inv.Phase)
			rc.Inc("probe.bracket_end_state." + inv.EndState)
		}
	}
	rc.Add("cleanups_registered", nclean)
	rc.Add("context_samples", nctx)
	rc.Add("waiters_parked", cr.W.WaitersMade)
	rc.Nontriv = nclean+nctx > 0
}

func judgeBrackets(rc *RunCtx, cr *CheckRun, rule string) {
	w := cr.W
	if w.Overrun {
		return
	}
	if cr.BubblePanic != "" {
		rc.V(viol(rule+".R5", "bubble-panic", "bubble ended abnormally: %s", cr.BubblePanic))
		return
	}
	// index events by invocation
	byInv := map[int][]Event{}
	for _, e := range w.Events {
		if e.Inv >= 0 {
			byInv[e.Inv] = append(byInv[e.Inv], e)
		}
	}
	for _, inv := range w.Invs {
		evs := byInv[inv.Idx]
		// R1: live and identical during the call
		var first *CtxRec
		for i := range inv.Ctxs {
			c := &inv.Ctxs[i]
			if c.InCleanup {
				continue
			}
			if first == nil {
				first = c
			} else if c.Ctx != first.Ctx {
				rc.V(viol(rule+".R1", "context-changed", "invocation %d (%s): T.Context() returned two different contexts during one call", inv.Idx, inv.Phase))
				return
			}
		}
		var stack []int
		ran := map[int]int{}
		for _, e := range evs {
			switch e.Kind {
			case EvCtxSample:
				if e.A != "cleanup" && !e.OK {
					rc.V(viol(rule+".R1", "context-dead-during-call", "invocation %d (%s): T.Context() already cancelled during the call (%s)", inv.Idx, inv.Phase, e.A))
					return
				}
				if e.A == "cleanup" && e.OK {
					rc.V(viol(rule+".R2", "context-live-in-cleanup", "invocation %d (%s): T.Context() obtained inside a cleanup function is not cancelled", inv.Idx, inv.Phase))
					return
				}
			case EvCleanupReg:
				stack = append(stack, e.N)
			case EvCleanupRun:
				ran[e.N]++
				if !e.OK {
					rc.V(viol(rule+".R2", "cleanup-before-cancel", "invocation %d (%s): cleanup #%d ran while a context of the call was still live", inv.Idx, inv.Phase, e.N))
					return
				}
				if len(stack) == 0 || stack[len(stack)-1] != e.N {
					rc.V(viol(rule+".R3", "not-lifo", "invocation %d (%s): cleanup #%d ran out of order (stack %v)", inv.Idx, inv.Phase, e.N, stack))
					return
				}
				stack = stack[:len(stack)-1]
				if e.Seq < inv.SeqEnd || inv.SeqEnd == 0 {
					rc.V(viol(rule+".R3", "cleanup-during-call", "invocation %d (%s): cleanup #%d ran before the call returned", inv.Idx, inv.Phase, e.N))
					return
				}
			}
		}
		for id, n := range ran {
			if n != 1 {
				rc.V(viol(rule+".R3", "cleanup-ran-twice", "invocation %d (%s): cleanup #%d ran %d times", inv.Idx, inv.Phase, id, n))
				return
			}
		}
		if !inv.Ended {
			continue
		}
		if !inv.Verified {
			rc.V(viol("harness", "unverified-bracket", "invocation %d never reached an observation point", inv.Idx))
			return
		}
		if inv.CleanupsPending != 0 {
			rc.V(viol(rule+".R4", "cleanups-not-run", "invocation %d (%s, ended %s): %d of %d registered cleanups had not run when the next invocation began / Check returned", inv.Idx, inv.Phase, inv.EndState, inv.CleanupsPending, len(inv.CleanReg)))
			return
		}
		if inv.CtxOpenAtNext != 0 {
			rc.V(viol(rule+".R2", "context-not-cancelled", "invocation %d (%s, ended %s): its context was still live when the next invocation began / Check returned", inv.Idx, inv.Phase, inv.EndState))
			return
		}
	}
	if cr.WaitersLeaked != 0 {
		rc.V(viol(rule+".R5", "waiter-leaked", "%d of %d goroutines waiting on T.Context().Done() were never released", cr.WaitersLeaked, w.WaitersMade))
	}
}

// scenarioC10Example: Generator.Example drives Custom generator functions (with cleanups, contexts, parked waiters,
// skips that make Custom retry) on a T that has no TB at all.
// defaultFlags: rapid's flag values at process start
var defaultFlags = Flags{Checks: 100, Steps: 30, Seed: 0, ShrinkTime: 30 * time.Second}

func scenarioC10Example(rc *RunCtx, prog *Prog) {
	defaultFlags.Apply()
	t := rc.T
	if len(prog.Customs) == 0 {
		prog.Customs = append(prog.Customs, &CustomSpec{ID: 0, NDraw: 2, Max: 9, Vars: []int{prog.NVars, prog.NVars + 1}, SkipIf: &Cond{Var: prog.NVars, Op: OpMod, M: 3, C: 0}, Cleanup: true, Ctx: true, Park: true})
		prog.NVars += 2
	}
	c := prog.Customs[t.Pick("c10.ex.custom", len(prog.Customs))]
	c.FailIf = nil // Example has no way to report a failure; the bracket is what is judged
	seed := t.Int("c10.ex.seed", 0, 1<<20)
	w := NewWorld("example", ClockPolicy{Kind: ClkFrozen}, false)
	in := NewInterp(w, prog)
	in.env = &Env{vals: make([][2]int64, prog.NVars+2), set: make([]bool, prog.NVars+2)}
	cr := &CheckRun{W: w, In: in, Prog: prog, Name: "example"}
	spec := &GenSpec{K: "custom", Cust: c}
	wrapped := &GenSpec{K: []string{"custom", "filter_even", "oneof"}[t.Pick("c10.ex.wrap", 3)], A: 3, Sub: spec, Cust: c}
	func() {
		defer func() {
			if r := recover(); r != nil {
				cr.BubblePanic = fmt.Sprint(r)
			}
		}()
		synctestRun(func() {
			w.initChans()
			func() {
				defer func() {
					if r := recover(); r != nil {
						w.EscapedStr = fmt.Sprint(r) // Example asserts when it cannot generate a value: not a bracket matter
					}
				}()
				g := in.buildInt(wrapped)
				for i := 0; i < 3; i++ {
					_ = g.Example(seed + i)
				}
			}()
			cr.finishWaiters(synctestWait)
		})
	}()
	for _, inv := range w.Invs {
		inv.Phase = "example"
	}
	rc.Inc("leg.example")
	for _, inv := range w.Invs {
		if len(inv.CleanReg) > 0 || len(inv.Ctxs) > 0 {
			rc.Inc("probe.bracket_in_phase.example")
		}
	}
	rc.Inc("checks_run")
	rc.Add("invocations", len(w.Invs))
	rc.Sample = fmt.Sprintf("Example leg: %v x3 from seed %d, %d Custom invocations, waiters=%d", wrapped, seed, len(w.Invs), w.WaitersMade)
	rc.Tracef("%s", rc.Sample)
	rc.Key = MixSeed(HashString(wrapped.String()), uint64(seed))
	rc.Nontriv = len(w.Invs) > 0
	rc.MixHash(uint64(len(w.Invs)))
	judgeBrackets(rc, cr, "C10")
}

// scenarioC10Fuzz: the MakeFuzz entry point with arbitrary bytes (outside any bubble: a real *testing.T is needed).
func scenarioC10Fuzz(rc *RunCtx, prog *Prog) {
	t := rc.T
	// rapid's flags are process-wide: this leg sets none of its own, so it must not inherit those of the worker's previous run
	defaultFlags.Apply()
	n := t.Int("c10.fz.len", 0, 400)
	r := NewRNG(t.Draw("c10.fz.sub", 1<<30))
	data := make([]byte, n)
	small := t.Chance("c10.fz.small_words", 60)
	for i := range data {
		data[i] = byte(r.Next())
		if small && i%8 >= 2 {
			data[i] = 0 // small 64-bit words decode into sensible lengths and choices
		}
	}
	w := NewWorld("fuzz", ClockPolicy{Kind: ClkFrozen}, false)
	w.initChans()
	in := NewInterp(w, prog)
	cr := &CheckRun{W: w, In: in, Prog: prog, Name: "fuzz"}
	curT.Run("fuzzleg", func(ft *testing.T) {
		rapid.MakeFuzz(in.Prop)(ft, data)
	})
	cr.finishWaiters(func() { time.Sleep(2 * time.Millisecond) })
	for _, inv := range w.Invs {
		if inv.Custom {
			inv.Phase = "custom"
		} else {
			inv.Phase = "fuzz"
		}
	}
	rc.Inc("leg.makefuzz")
	rc.Inc("checks_run")
	rc.Add("invocations", len(w.Invs))
	rc.Sample = fmt.Sprintf("MakeFuzz leg: %d bytes, %d invocations\n%s", n, len(w.Invs), prog)
	rc.Tracef("%s", rc.Sample)
	rc.Key = MixSeed(HashString(prog.String()), HashString(string(data)))
	rc.Nontriv = len(w.Invs) > 0
	rc.MixHash(uint64(len(w.Invs)))
	for _, inv := range w.Invs {
		if len(inv.CleanReg) > 0 || len(inv.Ctxs) > 0 {
			rc.Inc("probe.bracket_in_phase." + inv.Phase)
		}
	}
	judgeBrackets(rc, cr, "C10")
}
