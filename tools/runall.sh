#!/bin/sh
# Runs every registered quick (or $1) check against /repo and summarises.
cd "$(dirname "$0")/.."
tier=${1:-quick}
rc=0
for p in C01 C02 C04 C05 C06 C07 C09 C10 C11 C14 C15 C16 C17; do
  s=$(date +%s)
  out=$(./bin/vcheck -property $p -tier $tier 2>&1); code=$?
  e=$(date +%s)
  echo "$p exit=$code $((e-s))s :: $(echo "$out" | tail -1 | cut -c1-200)"
  [ $code -ne 0 ] && { echo "$out" | tail -15; rc=1; }
done
exit $rc
