#!/usr/bin/env python3
"""Builds /verif/seeded/<id>/ (patch.diff, demonstration, meta.json, NOTES.md) and /verif/seeded/RESULTS.md from the final
evaluation logs in /tmp/final (tools: evalseed.sh) and from mutants/results.json."""
import json, os, re, shutil, subprocess, glob
V = '/verif'
needs = json.load(open(f'{V}/tools/seed_needs.json'))
head = subprocess.check_output(['git', '-C', '/repo', 'log', '-1', '--format=%h']).decode().strip()
rows = []
WAVE = {'w1': ({'A': 'A', 'B': 'B'}, '/tmp/seedout', 1), 'w2': ({'A': 'C', 'B': 'D'}, '/tmp/seedout2', 2), 'w3': ({'A': 'E', 'B': 'F'}, '/tmp/seedout3', 3), 'w4': ({'A': 'G', 'B': 'H'}, '/tmp/seedout4', 4), 'w5': ({'A': 'I', 'B': 'J'}, '/tmp/seedout5', 5), 'w6': ({'A': 'K', 'B': 'L'}, '/tmp/seedout6', 6)}
for d in sorted(glob.glob('/tmp/final/w?-C??-?')):
    tag, pid, v = os.path.basename(d).split('-')
    name = f'{pid}-{WAVE[tag][0][v]}'
    out = f'{V}/seeded/{name}'
    os.makedirs(out, exist_ok=True)
    shutil.copy(f'{d}/patch.diff', f'{out}/patch.diff')
    demo = f'zz_demo_{pid}_{v}_test.go'
    if os.path.exists(f'{d}/{demo}'):
        shutil.copy(f'{d}/{demo}', f'{out}/{demo}')
    src_notes = f'{WAVE[tag][1]}/{pid}/NOTES.md'
    if os.path.exists(src_notes):
        shutil.copy(src_notes, f'{out}/NOTES.md')
    log = open(f'{d}/eval.log', errors='replace').read()
    checks, cur = {}, None
    for l in log.splitlines():
        m = re.match(r'== (C\d+) exit=(\d+) \((\d+)s\)', l)
        if m:
            cur = m.group(1); checks[cur] = {'exit': int(m.group(2)), 'seconds': int(m.group(3)), 'rules': []}
        elif cur and l.startswith('violation '):
            checks[cur]['rules'].append(l.split()[1].rstrip(':'))
    m0 = re.search(r'demo without change: exit (\d+).*with change: exit (\d+)', log)
    meta = {
        'id': name, 'breaks_property': pid, 'wave': WAVE[tag][2],
        'origin': 'written by an independent sub-agent that was given only the text of the property and its own scratch worktree of flyingmutant/rapid',
        'needs_to_manifest': needs.get(f'{tag}-{pid}-{v}', ''),
        'applies_to_repo_commit': head,
        'demonstration': demo + ' (go test -race -run Demo . in the repository root)',
        'confirmed_here': {
            'demo_without_change_exit': int(m0.group(1)) if m0 else None,
            'demo_with_change_exit': int(m0.group(2)) if m0 else None,
            'existing_suite_with_change': 'ok' if 'existing suite with change: ok' in log else 'NOT OK',
            'how': 'tools/evalseed.sh: scratch worktree of /repo HEAD; demo run before and after `git apply patch.diff`; `go test ./...` with the change; then `VERIF_REPO=<worktree> ./bin/vcheck -property <id> -tier quick` for the listed checks',
        },
        'checks_run': checks,
        'caught_by': sorted(k for k, x in checks.items() if x['exit'] == 1),
        'tier': 'quick',
    }
    json.dump(meta, open(f'{out}/meta.json', 'w'), indent=1)
    rows.append(meta)

lines = ['# Seeded changes: which checks catch which\n',
         f'All changes apply to /repo at {head}; none is ever committed there. "caught by" = the listed check exits 1 with a VIOLATION line at the quick tier on a scratch worktree carrying the change (and exits 0 without it).\n',
         '| seed | breaks | demo fails with / passes without | suite with change | caught by (rules) | what it needs |', '|---|---|---|---|---|---|']
for m in rows:
    c = m['confirmed_here']
    demo_ok = 'yes' if (c['demo_without_change_exit'] == 0 and (c['demo_with_change_exit'] or 0) != 0) else f"without={c['demo_without_change_exit']} with={c['demo_with_change_exit']}"
    caught = '; '.join(f"{k}: {', '.join(sorted(set(r.split('/')[0] + '/' + r.split('/')[1].split(':')[0] for r in m['checks_run'][k]['rules']))[:3])}" for k in m['caught_by']) or '**not caught**'
    lines.append(f"| {m['id']} | {m['breaks_property']} | {demo_ok} | {c['existing_suite_with_change']} | {caught} | {m['needs_to_manifest'][:170]} |")
mres = f'{V}/mutants/results.json'
if os.path.exists(mres):
    mr = json.load(open(mres))
    lines += ['', '## Deliberate mutants (mutants/*.diff, written with knowledge of the checks)\n', '| mutant | existing suite | caught by (rules) |', '|---|---|---|']
    for n in sorted(mr):
        det = mr[n]['checks']
        caught = '; '.join(f"{p}: {', '.join(sorted(set(d['rules']))[:2])}" for p, d in det.items() if d['exit'] == 1) or '**not caught**'
        lines.append(f"| {n} | {mr[n]['existing_suite']} | {caught[:220]} |")
open(f'{V}/seeded/RESULTS.md', 'w').write('\n'.join(lines) + '\n')
nc = [m['id'] for m in rows if not m['caught_by']]
print(len(rows), 'seeds;', 'not caught:', nc)
