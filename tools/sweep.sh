#!/bin/sh
# tools/sweep.sh <seed> <budget_s> [props...] — thorough-tier sweep on the unchanged tree (looking for false alarms / rare defects)
cd "$(dirname "$0")/.."
seed=$1; budget=$2; shift 2
props=${*:-"C01 C02 C04 C05 C06 C07 C09 C10 C11 C14 C15 C16 C17"}
[ -x bin/vcheck ] || ./setup.sh >/dev/null
for p in $props; do
  s=$(date +%s)
  out=$(VERIF_SEED=$seed VERIF_BUDGET_S=$budget ./bin/vcheck -property $p -tier thorough 2>&1); code=$?
  e=$(date +%s)
  echo "$p seed=$seed exit=$code $((e-s))s :: $(echo "$out" | tail -1 | cut -c1-220)"
  [ $code -ne 0 ] && echo "$out" | tail -60 | cut -c1-400
done
