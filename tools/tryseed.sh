#!/bin/sh
# tools/tryseed.sh <patch.diff> <property>...   — applies a seeded change to a scratch worktree of /repo and runs the named checks on it.
# Prints, per property: exit code and the violation lines. Never touches /repo's working tree.
set -u
patch=$(readlink -f "$1"); shift
cd "$(dirname "$0")/.."
wt=$(mktemp -d /tmp/tryseed-XXXXXX)
rmdir "$wt"
git -C /repo worktree add -q "$wt" HEAD || exit 2
trap 'git -C /repo worktree remove --force "$wt" >/dev/null 2>&1' EXIT
if ! git -C "$wt" apply "$patch"; then echo "PATCH DOES NOT APPLY"; exit 2; fi
export GOFLAGS=-mod=mod GOPROXY=off GOSUMDB=off
if [ "${SKIP_SUITE:-}" = "" ]; then
  (cd "$wt" && go build ./... && go test -vet=off -count=1 ./... 2>&1 | tail -1)
fi
mkdir -p /tmp/tryseed-replays
for p in "$@"; do
  s=$(date +%s)
  out=$(VERIF_REPO="$wt" VERIF_DIR_REPLAYS=1 ./bin/vcheck -property "$p" -tier "${TIER:-quick}" 2>&1); code=$?
  e=$(date +%s)
  echo "== $p exit=$code ($((e-s))s)"
  echo "$out" | grep -E "^violation|^KNOWN|harness|nondeterminism|trouble" | cut -c1-330 | head -8
done
rm -rf /tmp/vcheck-alt-replays /tmp/vcheck-alt-evidence
