#!/usr/bin/env python3
"""Generates /verif/mutants/<name>.diff (deliberate property-breaking changes, §6.2 of DESIGN.md) from /repo HEAD."""
import subprocess, os, sys, json, shutil, tempfile
M = [
 # name, expected properties, [(file, old, new)...]
 ("c05_no_traceback_compare", ["C05"], [("shrink.go", "	if traceback(err1) != traceback(s.err) {", "	if err1 == nil || err1.isInvalidData() {")]),
 ("c05_accept_larger", ["C05"], [("shrink.go", "	if compareData(buf, s.rec.data) >= 0 {\n		return false\n	}\n	bufStr", "	if compareData(buf, s.rec.data) == 0 {\n		return false\n	}\n	bufStr")]),
 ("c01_skip_final_prune_replay", ["C01","C04"], [("engine.go", "	buf, err3 := shrink(tb, shrinkDeadline(deadline), s.recordedBits, err2, prop)\n\n	return valid, invalid, false, seed, \"\", buf, err2, err3", "	buf, err3 := shrink(tb, shrinkDeadline(deadline), s.recordedBits, err2, prop)\n	if len(buf) > 2 {\n		buf = buf[:len(buf)-1]\n	}\n\n	return valid, invalid, false, seed, \"\", buf, err2, err3")]),
 ("c07_reports_base_seed", ["C07"], [("engine.go", "	return valid, invalid, false, seed, \"\", buf, err2, err3\n", "	return valid, invalid, false, seed - uint64(valid+invalid), \"\", buf, err2, err3\n")]),
 ("c09_one_more_check", ["C09"], [("engine.go", "	for valid < checks && invalid < checks*invalidChecksMult {", "	for valid <= checks && invalid < checks*invalidChecksMult {")]),
 ("c09_budget_1n", ["C09"], [("engine.go", "	invalidChecksMult = 10", "	invalidChecksMult = 1")]),
 ("c09_vacuous_early_exit", ["C09"], [("engine.go", "		if valid == checks || (earlyExit && valid > 0) {", "		if valid == checks || earlyExit {")]),
 ("c10_cancel_after_cleanups", ["C10"], [("engine.go", "	// Context must be closed before t.Cleanup functions are run.\n	t.mu.Lock()\n	if t.cancelCtx != nil {\n		t.cancelCtx()\n		t.cancelCtx = nil\n		t.ctx = nil\n	}\n	t.mu.Unlock()\n\n	for {", "	defer func() {\n		t.mu.Lock()\n		if t.cancelCtx != nil {\n			t.cancelCtx()\n			t.cancelCtx = nil\n			t.ctx = nil\n		}\n		t.mu.Unlock()\n	}()\n\n	for {")]),
 ("c10_fifo", ["C10"], [("engine.go", "			last := len(t.cleanups) - 1\n			cleanup = t.cleanups[last]\n			t.cleanups = t.cleanups[:last]", "			cleanup = t.cleanups[0]\n			t.cleanups = t.cleanups[1:]")]),
 ("c10_stop_after_panicking_cleanup", ["C10"], [("engine.go", "		if recurse {\n			t.cleanup()\n		}", "		if recurse && recover() == nil {\n			t.cleanup()\n		}")]),
 ("c11_no_draws_reset", ["C11"], [("engine.go", "		t.draws = 0\n", "")]),
 ("c02_swallow_in_runaction", ["C01", "C04"], [("statemachine.go", "				t.failOnError() // skipping does not undo a failure signalled earlier\n", "")]),
 ("c02_custom_drop", ["C02"], [("combinators.go", "	defer outer.failIfFailed(t) // after cleanup, as the cleanup functions can signal failures as well\n", "")]),
 ("c02_cleanup_after_failonerror", ["C02","C11"], [("engine.go", "	func() {\n		defer t.cleanup()\n		prop(t)\n	}()\n	t.failOnError() // after cleanup, to not miss failures signalled by the cleanup functions\n", "	defer t.cleanup()\n	prop(t)\n	t.failOnError()\n")]),
 ("c16_write_final_name", ["C16"], [("persist.go", "	f, err := os.CreateTemp(dir, failfileTmpPattern)", "	f, err := os.Create(filename)"), ("persist.go", "	err = os.Rename(f.Name(), filename)\n", "	err = nil\n"), ("persist.go", "	defer func() { _ = os.Remove(f.Name()) }()\n", "")]),
 ("c16_rename_before_last_write", ["C16"], [("persist.go", "	_, err = f.WriteString(strings.Join(bs, \"\\n\"))\n	if err != nil {\n		return fmt.Errorf(\"failed to write data to fail file %q: %w\", filename, err)\n	}\n\n	_ = f.Close() // early close, otherwise os.Rename will fail on Windows\n	err = os.Rename(f.Name(), filename)\n	if err != nil {\n		return fmt.Errorf(\"failed to save fail file %q: %w\", filename, err)\n	}\n", "	err = os.Rename(f.Name(), filename)\n	if err != nil {\n		return fmt.Errorf(\"failed to save fail file %q: %w\", filename, err)\n	}\n	_, err = f.WriteString(strings.Join(bs, \"\\n\"))\n	if err != nil {\n		return fmt.Errorf(\"failed to write data to fail file %q: %w\", filename, err)\n	}\n	_ = f.Close()\n")]),
 ("c16_temp_matches_glob", ["C16"], [("persist.go", "	f, err := os.CreateTemp(dir, failfileTmpPattern)", "	f, err := os.CreateTemp(dir, strings.TrimSuffix(filepath.Base(filename), \".fail\")+\"-tmp*.fail\")")]),
 ("c17_load_error_fails", ["C17"], [("engine.go", "		tb.Logf(\"[rapid] ignoring fail file: %v\", err)\n		return nil, nil, nil", "		tb.Errorf(\"[rapid] ignoring fail file: %v\", err)\n		return nil, nil, nil")]),
 ("c17_bad_file_consumes_seed", ["C17"], [("engine.go", "	for _, failfile := range failfiles {\n		buf, err1, err2 := checkFailFile(tb, failfile, prop)", "	for _, failfile := range failfiles {\n		seed++\n		buf, err1, err2 := checkFailFile(tb, failfile, prop)")]),
 ("c14_no_recheck_in_context", ["C14"], [("engine.go", "	if t.ctx != nil {\n		// Another goroutine set the context\n		// while we were waiting for the lock.\n		return t.ctx\n	}\n", "")]),
 ("c14_rlock_in_fail", ["C14"], [("engine.go", "func (t *T) fail(now bool, msg string) {\n	t.mu.Lock()\n	defer t.mu.Unlock()\n", "func (t *T) fail(now bool, msg string) {\n	t.mu.RLock()\n	defer t.mu.RUnlock()\n")]),
 ("c14_unlocked_cleanup", ["C14"], [("engine.go", "func (t *T) Cleanup(f func()) {\n	t.mu.Lock()\n	defer t.mu.Unlock()\n", "func (t *T) Cleanup(f func()) {\n")]),
 ("c14_failed_unlocked", ["C14"], [("engine.go", "func (t *T) Failed() bool {\n	t.mu.RLock()\n	defer t.mu.RUnlock()\n", "func (t *T) Failed() bool {\n")]),
 ("c15_deferred_no_once", ["C15"], [("combinators.go", "	g.once.Do(func() {\n		g.g = g.fn()\n	})\n", "	if g.g == nil {\n		g.g = g.fn()\n	}\n")]),
 ("c15_label_racy", ["C15"], [("generator.go", "	i := t.s.beginGroup(g.String(), true)", "	i := t.s.beginGroup(g.str, true)")]),
 ("c06_failfiles_after_findbug", ["C06","C09"], [("engine.go", "	for _, failfile := range failfiles {\n		buf, err1, err2 := checkFailFile(tb, failfile, prop)\n		if err1 != nil || err2 != nil {\n			return 0, 0, false, 0, failfile, buf, err1, err2\n		}\n	}\n\n	valid, invalid, earlyExit, seed, err1 := findBug(tb, deadline, checks, seed, prop)\n	if err1 == nil {\n		return valid, invalid, earlyExit, 0, \"\", nil, nil, nil\n	}\n", "	valid, invalid, earlyExit, seed, err1 := findBug(tb, deadline, checks, seed, prop)\n	if err1 == nil {\n		for _, failfile := range failfiles {\n			buf, err1, err2 := checkFailFile(tb, failfile, prop)\n			if err1 != nil || err2 != nil {\n				return 0, 0, false, 0, failfile, buf, err1, err2\n			}\n		}\n		return valid, invalid, earlyExit, 0, \"\", nil, nil, nil\n	}\n")]),
 ("c06_scanner_limit", ["C06"], [("persist.go", "	scanner.Buffer(nil, math.MaxInt32) // captured test output can contain lines of any length\n", "	scanner.Buffer(nil, math.MaxInt16*32)\n")]),
 ("c06_name_sanitize_mismatch", ["C06"], [("persist.go", "func failFilePattern(testName string) string {\n	fileName := fmt.Sprintf(\"%s-*.fail\", kindaSafeFilename(testName))", "func failFilePattern(testName string) string {\n	fileName := fmt.Sprintf(\"%s-*.fail\", strings.ReplaceAll(testName, \"/\", \"_\"))")]),
 ("c04_process_global_coin", ["C04"], [("utils.go", "func flipBiasedCoin(s bitStream, p float64) bool {\n	assert(p >= 0 && p <= 1)\n", "var coinFlips int\n\nfunc flipBiasedCoin(s bitStream, p float64) bool {\n	assert(p >= 0 && p <= 1)\n	coinFlips++\n	if coinFlips%4096 == 0 && p > 0 && p < 1 {\n		p = 1 - p // process-global state leaking into generation\n	}\n")]),
 ("c04_d1_reverted", ["C01","C04","C05"], [("utils.go", "		if r.pContinue < 1 {", "		if r.pContinue < 0 {")]),
]
out = os.path.join(os.path.dirname(os.path.dirname(os.path.abspath(__file__))), "mutants")
os.makedirs(out, exist_ok=True)
wt = tempfile.mkdtemp(prefix="mkmut-"); os.rmdir(wt)
subprocess.check_call(["git","-C","/repo","worktree","add","-q",wt,"HEAD"])
meta = {}
try:
    for name, props, edits in M:
        subprocess.check_call(["git","-C",wt,"checkout","-q","--","."])
        ok = True
        for f, old, new in edits:
            p = os.path.join(wt, f); s = open(p).read()
            if old not in s:
                print("MUTANT", name, ": pattern not found in", f); ok = False; break
            open(p,"w").write(s.replace(old, new, 1))
        if not ok: continue
        d = subprocess.check_output(["git","-C",wt,"diff"]).decode()
        env = dict(os.environ, GOFLAGS="-mod=mod", GOPROXY="off", GOSUMDB="off")
        b = subprocess.run(["go","build","./..."], cwd=wt, env=env, capture_output=True)
        if b.returncode != 0:
            print("MUTANT", name, ": does not compile:", b.stderr.decode()[:300]); continue
        t = subprocess.run(["go","test","-vet=off","-count=1","./..."], cwd=wt, env=env, capture_output=True)
        suite = "pass" if t.returncode == 0 else "FAIL"
        open(os.path.join(out, name + ".diff"), "w").write(d)
        meta[name] = {"expected": props, "existing_suite": suite}
        print(name, props, "suite:", suite)
finally:
    subprocess.call(["git","-C","/repo","worktree","remove","--force",wt])
json.dump(meta, open(os.path.join(out, "meta.json"), "w"), indent=1)
