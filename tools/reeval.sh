#!/bin/sh
# tools/reeval.sh [pattern] — re-runs tools/evalseed.sh for every stored evaluation directory /tmp/final/w?-C??-? with the
# checks it was evaluated with before (all of them, caught or not), then rebuilds seeded/ via tools/mkresults.py.
cd "$(dirname "$0")/.."
for d in /tmp/final/${1:-w?-C??-?}; do
  [ -f "$d/patch.diff" ] || continue
  b=$(basename "$d"); pid=$(echo $b | cut -d- -f2); v=$(echo $b | cut -d- -f3)
  props=$(grep -oE "^== C[0-9]+" "$d/eval.log" | cut -c4- | sort -u | tr '\n' ' ')
  demo=$(ls "$d" | grep -E "^zz_demo_.*_test.go$" | head -1)
  s=$(date +%s)
  tools/evalseed.sh "$d" patch "$demo" $props > "$d/eval.new" 2>&1
  mv "$d/eval.new" "$d/eval.log"
  echo "$b ($(( $(date +%s) - s ))s): $(grep -E '^== ' "$d/eval.log" | tr '\n' ' ')"
done
python3 tools/mkresults.py
