#!/bin/sh
# tools/reeval.sh [pattern] — re-runs tools/evalseed.sh for every stored evaluation directory /tmp/final/w?-C??-? with the
# checks it was evaluated with before (all of them, caught or not), then rebuilds seeded/ via tools/mkresults.py.
#   SINCE=<epoch>  skip what has been re-evaluated (without trouble) after that moment: resume / several instances
#   NO_RESULTS=1   do not rebuild seeded/ at the end
cd "$(dirname "$0")/.."
# /tmp/final is scratch: when it is gone, recreate the evaluation directories from seeded/<id>/ (patch, demonstration, and
# the list of checks each seed was evaluated with)
[ -d /tmp/final ] || python3 - <<'PY'
import json, glob, os, shutil
L = {'A': ('w1', 'A'), 'B': ('w1', 'B'), 'C': ('w2', 'A'), 'D': ('w2', 'B'), 'E': ('w3', 'A'), 'F': ('w3', 'B'), 'G': ('w4', 'A'), 'H': ('w4', 'B'), 'I': ('w5', 'A'), 'J': ('w5', 'B'), 'K': ('w6', 'A'), 'L': ('w6', 'B')}
for d in sorted(glob.glob('seeded/C??-?')):
    pid, letter = os.path.basename(d).split('-')
    tag, v = L[letter]
    out = f'/tmp/final/{tag}-{pid}-{v}'
    os.makedirs(out, exist_ok=True)
    shutil.copy(f'{d}/patch.diff', f'{out}/patch.diff')
    for f in glob.glob(f'{d}/zz_demo_*_test.go'):
        shutil.copy(f, out)
    if os.path.exists(f'{d}/NOTES.md'):
        os.makedirs(f'/tmp/seedout{"" if tag == "w1" else tag[1]}/{pid}', exist_ok=True)
        shutil.copy(f'{d}/NOTES.md', f'/tmp/seedout{"" if tag == "w1" else tag[1]}/{pid}/NOTES.md')
    meta = json.load(open(f'{d}/meta.json'))
    open(f'{out}/eval.log', 'w').write(''.join(f'== {c} exit=0 (0s)\n' for c in meta['checks_run']))
PY
for d in /tmp/final/${1:-w?-C??-?}; do
  [ -f "$d/patch.diff" ] || continue
  if [ -n "${SINCE:-}" ] && [ "$(stat -c %Y "$d/eval.log")" -gt "$SINCE" ] && ! grep -q "exit=2" "$d/eval.log"; then continue; fi
  b=$(basename "$d")
  props=$(grep -oE "^== C[0-9]+" "$d/eval.log" | cut -c4- | sort -u | tr '\n' ' ')
  demo=$(ls "$d" | grep -E "^zz_demo_.*_test.go$" | head -1)
  s=$(date +%s)
  tools/evalseed.sh "$d" patch "$demo" $props > "$d/eval.new" 2>&1
  mv "$d/eval.new" "$d/eval.log"
  echo "$b ($(( $(date +%s) - s ))s): $(grep -E '^== ' "$d/eval.log" | tr '\n' ' ')"
done
[ -n "${NO_RESULTS:-}" ] || python3 tools/mkresults.py
