#!/bin/sh
# tools/reeval.sh [pattern] — re-runs tools/evalseed.sh for every stored evaluation directory /tmp/final/w?-C??-? with the
# checks it was evaluated with before (all of them, caught or not), then rebuilds seeded/ via tools/mkresults.py.
#   SINCE=<epoch>  skip what has been re-evaluated (without trouble) after that moment: resume / several instances
#   NO_RESULTS=1   do not rebuild seeded/ at the end
cd "$(dirname "$0")/.."
for d in /tmp/final/${1:-w?-C??-?}; do
  [ -f "$d/patch.diff" ] || continue
  if [ -n "${SINCE:-}" ] && [ "$(stat -c %Y "$d/eval.log")" -gt "$SINCE" ] && ! grep -q "exit=2" "$d/eval.log"; then continue; fi
  b=$(basename "$d")
  props=$(grep -oE "^== C[0-9]+" "$d/eval.log" | cut -c4- | sort -u | tr '\n' ' ')
  demo=$(ls "$d" | grep -E "^zz_demo_.*_test.go$" | head -1)
  s=$(date +%s)
  tools/evalseed.sh "$d" patch "$demo" $props > "$d/eval.new" 2>&1
  mv "$d/eval.new" "$d/eval.log"
  echo "$b ($(( $(date +%s) - s ))s): $(grep -E '^== ' "$d/eval.log" | tr '\n' ' ')"
done
[ -n "${NO_RESULTS:-}" ] || python3 tools/mkresults.py
