#!/bin/sh
# tools/mutants.sh [name...] — runs every deliberate mutant in mutants/ against the checks it is expected to trip (quick tier)
cd "$(dirname "$0")/.."
python3 - "$@" <<'PY'
import json, subprocess, sys, os, re
meta = json.load(open('mutants/meta.json'))
names = sys.argv[1:] or sorted(meta)
res = json.load(open('mutants/results.json')) if os.path.exists('mutants/results.json') and sys.argv[1:] else {}
for n in names:
    m = meta[n]
    out = subprocess.run(['tools/tryseed.sh', f'mutants/{n}.diff'] + m['expected'], env=dict(os.environ, SKIP_SUITE='1'), capture_output=True, text=True, errors='replace').stdout
    det = {}
    cur = None
    for l in out.splitlines():
        mm = re.match(r'== (C\d+) exit=(\d+)', l)
        if mm:
            cur = mm.group(1); det[cur] = {'exit': int(mm.group(2)), 'rules': []}
        elif cur and l.startswith('violation '):
            det[cur]['rules'].append(l.split()[1])
    res[n] = {'existing_suite': m['existing_suite'], 'checks': det}
    caught = [p for p, d in det.items() if d['exit'] == 1]
    print(f"{n:38s} suite={m['existing_suite']:4s} caught_by={caught} " + '; '.join(f"{p}:{','.join(d['rules'][:3])}" for p, d in det.items() if d['exit'] == 1)[:160], flush=True)
json.dump(res, open('mutants/results.json', 'w'), indent=1)
PY
