#!/bin/sh
# tools/quickseeds.sh <seed>... — quick tier of every check with other VERIF_SEED values (false-alarm hunt on the unchanged tree)
cd "$(dirname "$0")/.."
[ -x bin/vcheck ] || ./setup.sh >/dev/null
for seed in "$@"; do
  for p in C01 C02 C04 C05 C06 C07 C09 C10 C11 C14 C15 C16 C17; do
    out=$(VERIF_SEED=$seed ./bin/vcheck -property $p -tier quick 2>&1); code=$?
    [ $code -ne 0 ] && { echo "seed=$seed $p exit=$code"; echo "$out" | tail -8 | cut -c1-400; }
  done
  echo "seed $seed done"
done
