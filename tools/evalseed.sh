#!/bin/sh
# tools/evalseed.sh <seed dir> <variant A|B> <demo file or ""> <props...>
# 1. confirms the seeded change (demo passes without, fails with; existing suite passes with)  2. runs the named checks on it.
set -u
dir=$(readlink -f "$1"); var=$2; demo=$3; shift 3
cd "$(dirname "$0")/.."
export GOFLAGS=-mod=mod GOPROXY=off GOSUMDB=off
wt=$(mktemp -d /tmp/evalseed-XXXXXX); rmdir "$wt"
git -C /repo worktree add -q "$wt" HEAD || exit 2
trap 'git -C /repo worktree remove --force "$wt" >/dev/null 2>&1' EXIT
demorun() { (cd "$wt" && go test -count=1 -race -run 'ZZDemo|zzdemo|Demo' . >/tmp/evalseed-demo.$$ 2>&1; echo $?); }
if [ -n "$demo" ]; then
  cp "$dir/$demo" "$wt/"
  r0=$(demorun)
  git -C "$wt" apply "$dir/$var.diff" || { echo "PATCH DOES NOT APPLY"; exit 2; }
  r1=$(demorun)
  rm -f "$wt/$demo"
  echo "demo without change: exit $r0 (want 0); with change: exit $r1 (want !=0)"
else
  git -C "$wt" apply "$dir/$var.diff" || { echo "PATCH DOES NOT APPLY"; exit 2; }
fi
suite=$(cd "$wt" && go build ./... && go test -vet=off -count=1 ./... 2>&1 | tail -1)
echo "existing suite with change: $suite"
for p in "$@"; do
  s=$(date +%s)
  out=$(VERIF_REPO="$wt" ./bin/vcheck -property "$p" -tier "${TIER:-quick}" 2>&1); code=$?
  e=$(date +%s)
  echo "== $p exit=$code ($((e-s))s)"
  echo "$out" | grep -E "^violation|^KNOWN|harness|nondeterminism|trouble" | cut -c1-300 | head -6
done
[ -n "${KEEP_ALT:-}" ] || rm -rf /tmp/vcheck-alt-replays /tmp/vcheck-alt-evidence; rm -f /tmp/evalseed-demo.$$
