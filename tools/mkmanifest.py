#!/usr/bin/env python3
"""Regenerates /verif/MANIFEST.json from the table below (keeps it valid and current)."""
import json, subprocess, sys, os
here = os.path.dirname(os.path.dirname(os.path.abspath(__file__)))

E1_NOTE = ("Trusted base: Go 1.26.8 runtime and testing/synctest fake clock; the harness's property-program interpreter and recorder; "
           "a read-only accessor file injected into a scratch copy of the tree under build tag verif (stream kind, initial words, recorded words/groups). "
           "Generated programs are deterministic functions of their draws by construction. Seeded search: a clean batch is evidence, not proof.")

checks = {
 "C01": dict(engine="E1", cat="exploration", ref="§3 C01", technique="deterministic simulation: seeded history search over failing Checks under a fake clock (cuts at arbitrary invocations) with save-time faults; oracle on the recorded history",
             text="Seeded search over generated failing property programs x flags x clock policies: the deadline/shrink time limit strikes at arbitrary invocations of a real, unmodified rapid.Check running in a synctest bubble; every finished history is judged (final case fails with the named failure, logged draws = received draws, never flaky, no falsification without a signal, fail file replays the presented words). Programs scribble over every mutable value they drew; failure sites differ as leaf functions, as call lines 14 frames away from the panic, or as methods of a type named like the runtime package. Exploration is the right level: the quantifier (programs x seeds x instants of the clock) is unbounded."),
 "C05": dict(engine="E1", cat="exploration", ref="§3 C05", technique="deterministic simulation: frozen-clock run vs clock-cut runs of the same tape; monitor on every accepted minimization step",
             text="Every accepted minimization step is observed through the accessor: same site as the original failure, strictly decreasing in shortlex order (the termination argument, monitored), result never larger than the original; the same tape re-run with the clock cut at a uniformly chosen point must produce an exact prefix of the frozen run's accepted sequence and present its last element."),
 "C07": dict(engine="E1", cat="exploration", ref="§3 C07", technique="deterministic simulation: two-run / three-run histories under identical simulated time; history-hash equality; printed-seed replay",
             text="The same (program, -rapid.seed, simulated time) is executed twice in fresh bubbles and directories and the complete histories must be identical; the seed parsed from the failure message must make the first test case draw the originally failing values and fail after 0 tests - for every seed offered in any report, also after a fail-file replay, for a MakeCheck closure created before the flags were set, with and without -short; a third execution guards against agreement by accident; the index of the first falsified case is spread over 0..checks-1 (histogram in evidence)."),
 "C09": dict(engine="E1", cat="exploration", ref="§3 C09", technique="deterministic simulation: invocation-count oracle under frozen / dripping / deadline-approaching fake clock with stale fail files on disk",
             text="Counts valid / skipped / failing random test cases of real Check runs from the recorded history: exactly N valid cases then OK and nothing more; 'only generated' + FailNow when 10*N skipped; never a vacuous pass when the clock is driven to the deadline; no fresh case after the first falsified one; fail files replayed first (also slowly: clock jumps of hours inside the replays must not cause an early exit); a leg through MakeCheck on a real *testing.T without a deadline, incl. long runs of big test cases (about 10M words drawn within one Check)."),
 "C10": dict(engine="E1", cat="exploration", ref="§3 C10", technique="deterministic simulation: bracket automaton over the event history of every invocation kind + bubble quiescence for Done()-waiters",
             text="A bracket automaton is fed the global event sequence of failing, minimizing, persisting Checks (hundreds of invocations of all ten kinds, cut by the clock; plus Generator.Example on retried Custom generators and MakeFuzz on arbitrary bytes): context live and unique during the call, cancelled before any cleanup, cleanups exactly once and LIFO incl. ones registered during cleanup and after panics, everything closed before the next invocation; goroutines parked on Done() must all be released (synctest quiescence)."),
 "C02": dict(engine="E1", cat="exploration", ref="§3 C02", technique="deterministic simulation: enumerated kind x context x position matrix of failure signals inside simulated Check histories; conservation oracle",
             text="The finite matrix (16 failure kinds incl. empty-message Error()/Errorf(\"\") x 8 callback contexts in which a *T is available x 10 positions of the falsifying case within the run incl. 'signal, then a Skip raised from a cleanup', 'signal from a cleanup function that runs after a later-registered cleanup skipped' and 'only in the first replay of an existing fail file' = 938 cells) is enumerated cell by cell over run indices, each followed by 0-3 later statements (Custom draws, filters that give up, state machines, cleanups) that must not un-signal it; every fourth run is a generated program under the same oracle; around each cell seed, checks, steps and clock are sampled; conservation oracle: a recorded failure signal on any *T rapid handed out implies the TB is failed (and FailNow) when Check returns; skips and passes alone never fail it. 12% of the 'first-case'/'every-case' cells are run as fuzz targets instead (MakeFuzz on a real sub-test with arbitrary bytes): a signal in the executed case must fail the enclosing test."),
 "C04": dict(engine="E1", cat="exploration", ref="§3 C04", technique="deterministic simulation: multi-phase process histories (warm-ups, same seed twice, record -> prune -> replay, fail -> restart -> replay, raw recording via MakeFuzz, cold OS process vs warm) with draw-log equivalence oracles",
             text="Replay-equivalence over histories: same seed twice in different bubbles; reproduction = failing case; any two invocations started from identical words behave identically; the presented case (replay of the pruned recording) draws what the last recording run drew minus rejected attempts; restart over the same directory replays the same values; the unpruned recording through MakeFuzz reproduces the recorded run; every run starts from recreated process-wide caches, so its warm history is exactly the warm-ups on its tape, and the same tape in a fresh OS process (cold) must give the same history (look-alike regexps probe cache keying); a sampled run that behaves differently in the warm worker than in two agreeing fresh processes is reported as process-history dependence with an index-range replay."),
 "C06": dict(engine="E1", cat="exploration", ref="§3 C06", technique="deterministic simulation: two-run history fail -> restart -> rerun on a real scratch FS with hostile names/outputs, clock jumps within and between runs",
             text="Run 1 fails with fail files enabled (hostile test names and logged output, empty bitstreams, clock cuts); exactly one new *.fail file must appear below testdata/rapid/ and be named in the message; after a restart (a new bubble, or a new OS process running the same worker binary; same second / +1 s / +1 year) the next Check, without flag, with -rapid.failfile on a moved copy, or with -rapid.failfile naming another test's file (the own file must still be found), with TMPDIR on another file system in 12% of the runs, must replay exactly the minimized words before any random case and fail after 0 tests with the same message and values."),
 "C14": dict(engine="E2", cat="exploration", ref="§3 C14", technique="deterministic simulation: seeded schedule search with a controlled scheduler over real goroutines (yields at rapid's own sync operations); race detector as happens-before oracle; porcupine linearizability vs a sequential T model; conservation checks",
             note="Trusted base: Go 1.26.8 runtime and race detector (happens-before based: under the serialised execution it reports a race iff two accesses are unordered by rapid's own synchronisation, because the baton hand-off uses raw futex calls in norace functions); the go/types-driven yield rewrite of a scratch copy (instrument.log lists every site); porcupine v1.3.0; for data-race-free code all behaviours are interleavings at synchronisation operations (DRF-SC), so yields at sync ops plus the race oracle lose nothing statement-level preemption would find. Seeded search: evidence, not proof.",
             text="1-4 simulated goroutines plus the property's own goroutine (joined before the property returns, or - 30% - only by the first-registered cleanup, so that they keep running during rapid's cleanup phase) call Helper/Name/Log/Logf/Error/Errorf/Fail/Failed/Context/Cleanup on one *T (also a Custom generator's inner T) under a seeded scheduler (uniform, bursty, PCT d<=3) that decides every switch at rapid's own lock/unlock/atomic operations; oracles: zero race reports with a rapid frame, linearizable invoke/return history against a sequential model of T, every signal falsifies the case (verdict fail, never flaky or pass), cleanups registered = run exactly once, one live context per invocation cancelled afterwards, no deadlock (incl. Go's writer-preferring RWMutex: a recursive read lock while a writer waits is a deadlock). A third of the runs issue the calls from goroutines started inside state-machine actions of t.Repeat."),
 "C15": dict(engine="E2", cat="exploration", ref="§3 C15", technique="deterministic simulation: seeded schedule search over first/later uses of one shared generator by concurrently running checks; race detector as happens-before oracle; differential oracle against solo runs",
             note="Trusted base: as C14 (race detector as HB oracle under a baton scheduler without harness-induced edges; yield rewrite; process-wide caches and package-level generators are recreated before every run by an injected helper so that every run starts cold). Seeded search: evidence, not proof.",
             text="One freshly built generator expression (Deferred, Custom, Filter, Map, OneOf, StringMatching, String, SampledFrom, SliceOfN, nested) is shared by 2-4 simulated goroutines, each a check with its own T (passing Check, failing and minimizing Check - optionally loading fail files first -, Example, String, use as sub-generator, generators derived inside each check from the shared one by Filter/Map chains); the scheduler interleaves first uses with later uses at rapid's Once/sync.Map operations and at every draw; oracles: zero race reports with a rapid frame; every use observes exactly what it observes alone on a fresh generator (incl. the whole minimization trajectory)."),
 "C16": dict(engine="E3", cat="fault_enumeration", ref="§3 C16", technique="deterministic fault injection: exhaustive crash-point enumeration (SIGKILL injected by strace on entry to every FS-affecting system call of a real save) with byte-comparison and fresh-process judges",
             note="Trusted base: strace 6.1 syscall injection (validated per run: the injected run's trace must equal the baseline's prefix and end at the chosen call, else it is discarded); kernel page cache is the truth (process death, not power loss); torn single writes are dominated by the crash point before the write.",
             text="For every sampled workload (name, 0-200 output lines, bitstream size, failure kind; pre-state: empty / directory exists / leftovers of a killed earlier save; TMPDIR on the same or on another file system; one save or two saves for the same test within one process and second) EVERY file-system-affecting system call of the save is a crash point: a single-threaded child is killed on entry to that call; J1: every *.fail file left behind is byte-identical (up to timestamps) to the uninterrupted save; J2: a fresh process either behaves as if no fail file existed or replays the complete case; partial data only under temporary names."),
 "C17": dict(engine="E1", cat="fault_enumeration", ref="§3 C17", technique="deterministic simulation: fault injection into durable state (seeded + exhaustive truncation/bit-flip corruption of real fail files) with a differential oracle against a clean directory",
             text="Faults are injected into the only durable state (the fail-file directory) between runs: 22 fault kinds incl. blank lines, truncation at any offset and single-bit flips (exhaustively enumerated for a fixed reference file in the thorough tier), 1-4 files at once (or 30-100 unreadable entries with the process 10 descriptors away from RLIMIT_NOFILE and a property that opens a file), passing and failing targets; differential oracle against the same run in an empty directory: no crash, same verdict/message/random cases, one log line per unusable file."),
 "C11": dict(engine="E1", cat="exploration", ref="§3 C11", technique="deterministic simulation: blame oracle over multi-case histories on the reused T (selector programs), reach probes for the ordered pairs of consecutive behaviours",
             text="Selector programs make consecutive test cases take every reachable order of {pass, skip, errorf, errorf-skip, errorf-then-generator-gives-up, cleanup errorf, cleanup panic, fatal}; the case Check goes on to reproduce must be one that signalled, no signalling case is passed over or lost, never flaky, draw numbering restarts, brackets closed across cases."),
}

not_applicable = {
 "C03": "pure function of (constructor parameters, bitstream): no schedule, clock, disk, fault or multi-run history can influence a generated value; searching that input space is fuzzing/PBT, not simulation (DESIGN.md §4)",
 "C08": "Repeat's call sequence is a pure function of (action set, bitstream) on one goroutine with no time or I/O (DESIGN.md §4)",
 "C12": "deterministic function of (kind, threshold, seed); time appears only as the premise 'given enough time' (DESIGN.md §4)",
 "C13": "MakeFuzz's target is a pure total function of the byte string (DESIGN.md §4)",
 "C18": "statements about the PRNG-to-value map and about the real entropy source, which a deterministic simulator replaces by construction (DESIGN.md §4)",
}
pending = {
 "C02": "check under construction (E1 conservation oracle) — not claimed until it runs",
 "C04": "check under construction (E1 replay-equivalence oracle) — not claimed until it runs",
 "C06": "check under construction (E1 two-run persistence histories) — not claimed until it runs",
 "C14": "check under construction (E2 controlled scheduler) — not claimed until it runs",
 "C15": "check under construction (E2 controlled scheduler) — not claimed until it runs",
 "C16": "check under construction (E3 crash injector) — not claimed until it runs",
 "C17": "check under construction (E1 durable-state corruption) — not claimed until it runs",
}
for k in checks: pending.pop(k, None)

m = {
 "version": 1,
 "setup_cmd": "./setup.sh",
 "hooks": {
   "guard": "verif",
   "enable": "no hook is committed to /repo: every check copies /repo's working tree to a scratch directory, injects inject/zz_verif_access.go (//go:build verif; read-only accessors) — E2 additionally rewrites sync operations into scheduler yields in that copy — and builds the worker with `go1.26.8 test -c -tags verif`",
   "baseline_off_cmd": "cd /repo && go test -vet=off -count=1 ./...",
   "source_commits": [],
   "add_only": True,
 },
 "engines": [
   {"name": "E1", "path": "harness/", "serves_properties": sorted(k for k,v in checks.items() if v["engine"]=="E1"), "kind_free_text": "history simulator: unmodified rapid.Check inside a testing/synctest bubble (fake clock owned by the harness), own simTB, generated property programs, private scratch directory as the only durable state"},
   {"name": "E2", "path": "harness/ (build tag e2) + inject/verifrt + cmd/instrument", "serves_properties": sorted(k for k,v in checks.items() if v["engine"]=="E2"), "kind_free_text": "controlled scheduler: real goroutines, one baton passed by raw futex (no happens-before edge for the race detector), yield points inserted at every sync operation of a scratch copy of rapid by a go/types-driven rewrite; race detector + porcupine + differential oracles"},
   {"name": "E3", "path": "cmd/vcheck/e3.go + harness/main_test.go", "serves_properties": sorted(k for k,v in checks.items() if v["engine"]=="E3"), "kind_free_text": "crash injector: strace kills a single-threaded child on entry to each FS-affecting system call of a real saveFailFile; the surviving directory is judged by byte comparison and by a fresh process"},
 ],
 "checks": [],
 "not_applicable": [],
 "notes": "All checks: ./bin/vcheck -property <id> -tier quick|thorough (env VERIF_SEED, VERIF_TIER, VERIF_BUDGET_S). Exit 2 = build/watchdog/harness trouble, never a verdict. Known findings: KNOWN_FINDINGS.txt.",
}
for pid in sorted(checks):
    c = checks[pid]
    m["checks"].append({
        "property_id": pid,
        "quick_cmd": f"./bin/vcheck -property {pid} -tier quick",
        "thorough_cmd": f"./bin/vcheck -property {pid} -tier thorough",
        "evidence_file": f"evidence/{pid}.json",
        "replay_cmd_template": "./bin/vcheck -replay {path}",
        "engine": c["engine"],
        "level_claimed": {"category": c["cat"], "text": c["text"], "design_ref": c["ref"]},
        "level_note": c.get("note", E1_NOTE),
        "technique": c["technique"],
    })
for pid, r in sorted({**not_applicable, **pending}.items()):
    m["not_applicable"].append({"property_id": pid, "reason": r})
json.dump(m, open(os.path.join(here, "MANIFEST.json"), "w"), indent=1)
print("MANIFEST.json written:", len(m["checks"]), "checks,", len(m["not_applicable"]), "not applicable")
