module verif

go 1.25
