// vcheck: driver of the deterministic-simulation checks for pgregory.net/rapid.
//
//	vcheck -property C09 [-tier quick|thorough]     (env VERIF_SEED, VERIF_TIER, VERIF_BUDGET_S)
//	vcheck -replay replays/<file>.json
//	vcheck -selfcheck [-property C09]
//
// exit 0: property held on everything explored; exit 1 + "VIOLATION property=<id> replay=<path>";
// exit 2: build / watchdog / harness trouble (never a verdict).
package main

import (
	"bufio"
	"crypto/sha256"
	"encoding/json"
	"flag"
	"fmt"
	"io"
	"io/fs"
	"os"
	"os/exec"
	"path/filepath"
	"runtime"
	"sort"
	"strconv"
	"strings"
	"sync"
	"time"
)

const goBin = "/opt/veriftools/go1.26.8/bin/go"

type Entry struct {
	Site  string `json:"s"`
	Bound uint64 `json:"b"`
	Val   uint64 `json:"v"`
}

type Violation struct {
	Rule string `json:"rule"`
	Sig  string `json:"sig"`
	Msg  string `json:"msg"`
}

type Result struct {
	Idx     int            `json:"idx"`
	Viols   []Violation    `json:"viols,omitempty"`
	Stats   map[string]int `json:"stats"`
	Shapes  []uint64       `json:"shapes"`
	Hash    uint64         `json:"hash"`
	SimNs   int64          `json:"sim_ns"`
	Sample  string         `json:"sample,omitempty"`
	Tape    []Entry        `json:"tape,omitempty"`
	Trace   string         `json:"trace,omitempty"`
	Harness string         `json:"harness,omitempty"`
	Nontriv bool           `json:"nontriv"`
	Key     uint64         `json:"key"`
	WallUs  int64          `json:"wall_us"`
}

type Spec struct {
	Property string    `json:"property"`
	Seed     uint64    `json:"seed"`
	Tier     string    `json:"tier"`
	Lo       int       `json:"lo"`
	Hi       int       `json:"hi"`
	Stride   int       `json:"stride"`
	BudgetS  float64   `json:"budget_s"`
	Out      string    `json:"out"`
	Scratch  string    `json:"scratch"`
	Tapes    [][]Entry `json:"tapes,omitempty"`
	Verbose  bool      `json:"verbose"`
	KeepTape bool      `json:"keep_tape"`
	MaxRuns  int       `json:"max_runs"`
}

type propCfg struct {
	Engine      string
	Level       string
	QuickRuns   int
	ThoroughMax int // upper bound on run indices in the thorough tier
	Race        bool
	Instrument  bool
	ColdStart   bool // inject the process-state reset helper (every run starts from a cold process)
	Rule        string // how cases are generated and what counts as distinct / non-trivial
	RealStub    map[string]string
	SimTimeNote string
}

var e1RealStub = map[string]string{
	"rapid engine/generators/shrinker/persistence/state machine": "real code, rebuilt from /repo's working tree (plus a read-only accessor file under build tag verif)",
	"Go runtime, sync, context":                                   "real (Go 1.26.8)",
	"clock":                                                       "stub: testing/synctest fake clock, advanced only by harness sleeps",
	"testing.TB":                                                  "stub: simTB (records every call; FailNow/SkipNow unwind by sentinel panic)",
	"file system":                                                 "real kernel FS in a private scratch directory; faults injected into stored bytes / directory layout",
	"entropy":                                                     "stub: -rapid.seed from the tape",
	"user code (property, actions, Custom fn, cleanups)":          "stub by design: generated property programs run by an interpreter",
	"goroutine scheduler":                                         "real; single goroutine plus joined helpers (scheduling is E2's job)",
}

var props = map[string]*propCfg{}

func envOr(k, d string) string {
	if v := os.Getenv(k); v != "" {
		return v
	}
	return d
}

func die2(format string, a ...any) {
	fmt.Fprintf(os.Stderr, "vcheck: "+format+"\n", a...)
	os.Exit(2)
}

var verifDir = "/verif"
var repoDir = envOr("VERIF_REPO", "/repo")

func goEnv() []string {
	env := os.Environ()
	env = append(env, "GOFLAGS=-mod=mod", "GOPROXY=off", "GOSUMDB=off", "GOTOOLCHAIN=local", "GONOSUMDB=*", "GONOSUMCHECK=1", "GOFLAGS=-mod=mod")
	return env
}

func copyFile(src, dst string) error {
	in, err := os.Open(src)
	if err != nil {
		return err
	}
	defer in.Close()
	if err := os.MkdirAll(filepath.Dir(dst), 0o755); err != nil {
		return err
	}
	out, err := os.Create(dst)
	if err != nil {
		return err
	}
	defer out.Close()
	_, err = io.Copy(out, in)
	return err
}

// copyTree copies the current working tree of /repo (no .git, no testdata, no tests) and returns a content hash.
func copyTree(src, dst string) (string, error) {
	h := sha256.New()
	err := filepath.WalkDir(src, func(p string, d fs.DirEntry, err error) error {
		if err != nil {
			return err
		}
		rel, _ := filepath.Rel(src, p)
		if d.IsDir() {
			if rel == ".git" || rel == "testdata" || strings.HasPrefix(d.Name(), ".") && rel != "." {
				return filepath.SkipDir
			}
			return nil
		}
		if strings.HasSuffix(rel, "_test.go") || !(strings.HasSuffix(rel, ".go") || rel == "go.mod" || rel == "go.sum") {
			return nil
		}
		b, err := os.ReadFile(p)
		if err != nil {
			return err
		}
		fmt.Fprintf(h, "%s\x00%d\x00", rel, len(b))
		h.Write(b)
		return os.WriteFile(filepath.Join(dst, rel), b, 0o644)
	})
	return fmt.Sprintf("%x", h.Sum(nil))[:16], err
}

type build struct {
	root     string // scratch root
	worker   string // worker binary
	treeHash string
	race     bool
}

func doBuild(cfg *propCfg, prop string) *build {
	root, err := os.MkdirTemp(envOr("VERIF_TMP", ""), "vcheck-"+prop+"-")
	if err != nil {
		die2("mktemp: %v", err)
	}
	b := &build{root: root, race: cfg.Race}
	rapidDir := filepath.Join(root, "rapid")
	if err := os.MkdirAll(rapidDir, 0o755); err != nil {
		die2("%v", err)
	}
	b.treeHash, err = copyTree(repoDir, rapidDir)
	if err != nil {
		die2("copy tree: %v", err)
	}
	if err := copyFile(filepath.Join(verifDir, "inject", "zz_verif_access.go.txt"), filepath.Join(rapidDir, "zz_verif_access.go")); err != nil {
		die2("inject accessor: %v", err)
	}
	if cfg.Instrument || cfg.ColdStart {
		if err := copyFile(filepath.Join(verifDir, "inject", "zz_verif_reset.go.txt"), filepath.Join(rapidDir, "zz_verif_reset.go")); err != nil {
			die2("inject reset accessor: %v", err)
		}
	}
	if cfg.Instrument {
		// verifrt package + yield rewrite (E2)
		rt := filepath.Join(rapidDir, "verifrt")
		_ = os.MkdirAll(rt, 0o755)
		ents, _ := os.ReadDir(filepath.Join(verifDir, "inject", "verifrt"))
		for _, e := range ents {
			name := strings.TrimSuffix(e.Name(), ".txt")
			if err := copyFile(filepath.Join(verifDir, "inject", "verifrt", e.Name()), filepath.Join(rt, name)); err != nil {
				die2("inject verifrt: %v", err)
			}
		}
		cmd := exec.Command(filepath.Join(verifDir, "bin", "instrument"), "-dir", rapidDir)
		cmd.Env = append(goEnv(), "GOROOT=/opt/veriftools/go1.26.8")
		out, err := cmd.CombinedOutput()
		if err != nil {
			os.RemoveAll(root)
			die2("instrument failed: %v\n%s", err, out)
		}
		_ = os.WriteFile(filepath.Join(root, "instrument.log"), out, 0o644)
	}
	hdir := filepath.Join(root, "harness")
	srcH := filepath.Join(verifDir, "harness")
	err = filepath.WalkDir(srcH, func(p string, d fs.DirEntry, err error) error {
		if err != nil {
			return err
		}
		rel, _ := filepath.Rel(srcH, p)
		if d.IsDir() {
			return os.MkdirAll(filepath.Join(hdir, rel), 0o755)
		}
		return copyFile(p, filepath.Join(hdir, rel))
	})
	if err != nil {
		die2("copy harness: %v", err)
	}
	b.worker = filepath.Join(root, "worker.test")
	tags := "verif"
	if cfg.Instrument {
		tags = "verif,e2"
	}
	if cfg.ColdStart {
		tags += ",coldstart"
	}
	args := []string{"test", "-c", "-tags", tags, "-trimpath", "-o", b.worker}
	if cfg.Race {
		args = append(args, "-race")
	}
	args = append(args, ".")
	cmd := exec.Command(goBin, args...)
	cmd.Dir = hdir
	cmd.Env = goEnv()
	out, err := cmd.CombinedOutput()
	if err != nil {
		os.RemoveAll(root)
		die2("worker build failed (build trouble is never a verdict): %v\n%s", err, out)
	}
	return b
}

func (b *build) cleanup() {
	if os.Getenv("VERIF_KEEP") == "" {
		os.RemoveAll(b.root)
	}
}

var minBudgetExecs = 300

var workerSeq int
var workerMu sync.Mutex

// runWorker runs one worker process and returns its results.
func (b *build) runWorker(spec Spec, gomaxprocs int, timeout time.Duration) ([]Result, error) {
	workerMu.Lock()
	workerSeq++
	id := workerSeq
	workerMu.Unlock()
	wd := filepath.Join(b.root, fmt.Sprintf("w%d", id))
	if err := os.MkdirAll(wd, 0o755); err != nil {
		return nil, err
	}
	defer os.RemoveAll(wd)
	spec.Out = filepath.Join(wd, "out.jsonl")
	spec.Scratch = filepath.Join(wd, "scratch")
	_ = os.MkdirAll(spec.Scratch, 0o755)
	sb, _ := json.Marshal(spec)
	specPath := filepath.Join(wd, "spec.json")
	if err := os.WriteFile(specPath, sb, 0o644); err != nil {
		return nil, err
	}
	cmd := exec.Command(b.worker, "-test.run", "^TestWorker$", "-test.timeout", "0", "-test.count", "1")
	cmd.Dir = wd
	env := append(os.Environ(), "VERIF_SPEC="+specPath, "VERIF_RAPID_SRC="+filepath.Join(b.root, "rapid"))
	if gomaxprocs > 0 {
		env = append(env, fmt.Sprintf("GOMAXPROCS=%d", gomaxprocs))
	}
	if b.race {
		env = append(env, "GORACE=halt_on_error=0 log_path="+filepath.Join(wd, "race"))
	}
	cmd.Env = env
	var outBuf strings.Builder
	cmd.Stdout = &outBuf
	cmd.Stderr = &outBuf
	if err := cmd.Start(); err != nil {
		return nil, err
	}
	done := make(chan error, 1)
	go func() { done <- cmd.Wait() }()
	var werr error
	select {
	case werr = <-done:
	case <-time.After(timeout):
		_ = cmd.Process.Kill()
		<-done
		werr = fmt.Errorf("worker watchdog: killed after %v", timeout)
	}
	var res []Result
	complete := false
	f, err := os.Open(spec.Out)
	if err == nil {
		sc := bufio.NewScanner(f)
		sc.Buffer(make([]byte, 1<<20), 1<<30)
		for sc.Scan() {
			if strings.HasPrefix(sc.Text(), `{"done":true}`) {
				complete = true
				continue
			}
			var r Result
			if json.Unmarshal(sc.Bytes(), &r) == nil {
				res = append(res, r)
			}
		}
		f.Close()
	}
	if complete {
		werr = nil // the worker finished its work list; its exit status only reflects by-design failing sub-tests
	} else if werr == nil {
		werr = fmt.Errorf("worker exited without completion marker")
	}
	if werr != nil {
		tail := outBuf.String()
		head := ""
		for _, key := range []string{"fatal error:", "panic:", "WARNING: DATA RACE"} {
			if i := strings.Index(tail, key); i >= 0 {
				head = tail[i:]
				if len(head) > 2500 {
					head = head[:2500]
				}
				head = "[first " + key + "]\n" + head + "\n[...]\n"
				break
			}
		}
		if len(tail) > 1500 {
			tail = tail[len(tail)-1500:]
		}
		tail = head + tail
		return res, fmt.Errorf("%v\n%s", werr, tail)
	}
	return res, nil
}

// ---------------------------------------------------------------------------
// known findings

type finding struct {
	Prop, Sig, Text string
}

func loadFindings() []finding {
	var out []finding
	b, err := os.ReadFile(filepath.Join(verifDir, "KNOWN_FINDINGS.txt"))
	if err != nil {
		return nil
	}
	for _, l := range strings.Split(string(b), "\n") {
		l = strings.TrimSpace(l)
		if !strings.HasPrefix(l, "finding:") {
			continue
		}
		// finding: property=C11 sig=<rule>/<sig> :: text
		rest := strings.TrimSpace(strings.TrimPrefix(l, "finding:"))
		parts := strings.SplitN(rest, "::", 2)
		var f finding
		for _, kv := range strings.Fields(parts[0]) {
			if strings.HasPrefix(kv, "property=") {
				f.Prop = strings.TrimPrefix(kv, "property=")
			}
			if strings.HasPrefix(kv, "sig=") {
				f.Sig = strings.TrimPrefix(kv, "sig=")
			}
		}
		if len(parts) > 1 {
			f.Text = strings.TrimSpace(parts[1])
		}
		out = append(out, f)
	}
	return out
}

func knownFor(fs []finding, prop string, v Violation) *finding {
	key := v.Rule + "/" + v.Sig
	for i := range fs {
		if fs[i].Prop == prop && fs[i].Sig == key {
			return &fs[i]
		}
	}
	return nil
}

// ---------------------------------------------------------------------------
// minimisation of a violating tape (delta debugging over tape entries)

func hasViol(r Result, rule, sig string) bool {
	for _, v := range r.Viols {
		if v.Rule == rule && v.Sig == sig {
			return true
		}
	}
	return false
}

type minimiser struct {
	b     *build
	spec  Spec
	rule  string
	sig   string
	execs int
	start time.Time
	maxEx int
	maxT  time.Duration
}

func (m *minimiser) budgetLeft() bool {
	return m.execs < m.maxEx && time.Since(m.start) < m.maxT
}

// test evaluates candidates in parallel, returns the index of the first that still violates (or -1) with its result.
func (m *minimiser) test(cands [][]Entry) (int, *Result) {
	if len(cands) == 0 || !m.budgetLeft() {
		return -1, nil
	}
	par := runtime.NumCPU()
	if par > 16 {
		par = 16
	}
	type out struct {
		i int
		r *Result
	}
	results := make([]*Result, len(cands))
	var wg sync.WaitGroup
	sem := make(chan struct{}, par)
	for i := range cands {
		wg.Add(1)
		sem <- struct{}{}
		go func(i int) {
			defer wg.Done()
			defer func() { <-sem }()
			sp := m.spec
			sp.Tapes = [][]Entry{cands[i]}
			res, err := m.b.runWorker(sp, 0, 120*time.Second)
			if err == nil && len(res) == 1 {
				results[i] = &res[0]
			}
		}(i)
	}
	wg.Wait()
	m.execs += len(cands)
	for i, r := range results {
		if r != nil && hasViol(*r, m.rule, m.sig) {
			return i, r
		}
	}
	return -1, nil
}

func (m *minimiser) run(tape []Entry) ([]Entry, *Result) {
	cur := tape
	var curRes *Result
	// canonicalise: the executed tape (Out) of a replay is the tape itself, possibly longer/shorter
	// 1. truncation (binary search on prefix length)
	lo, hi := 0, len(cur)
	for lo < hi && m.budgetLeft() {
		mid := (lo + hi) / 2
		if i, r := m.test([][]Entry{cur[:mid]}); i == 0 {
			hi = mid
			curRes = r
		} else {
			lo = mid + 1
		}
	}
	cur = cur[:hi]
	// 2. chunk deletion
	for size := len(cur) / 2; size >= 1 && m.budgetLeft(); {
		var cands [][]Entry
		var offs []int
		for off := 0; off+size <= len(cur); off += size {
			c := append(append([]Entry(nil), cur[:off]...), cur[off+size:]...)
			cands = append(cands, c)
			offs = append(offs, off)
			if len(cands) >= 32 {
				break
			}
		}
		if i, r := m.test(cands); i >= 0 {
			cur = cands[i]
			curRes = r
			if size > len(cur)/2 && size > 1 {
				size = len(cur) / 2
			}
			continue
		}
		size /= 2
	}
	// 3. zero values, then halve
	for pass := 0; pass < 2 && m.budgetLeft(); pass++ {
		progress := true
		for progress && m.budgetLeft() {
			progress = false
			var cands [][]Entry
			for i := range cur {
				if cur[i].Val == 0 {
					continue
				}
				c := append([]Entry(nil), cur...)
				if pass == 0 {
					c[i].Val = 0
				} else {
					c[i].Val /= 2
				}
				cands = append(cands, c)
				if len(cands) >= 32 {
					break
				}
			}
			if i, r := m.test(cands); i >= 0 {
				cur = cands[i]
				curRes = r
				progress = true
			}
		}
	}
	return cur, curRes
}

// ---------------------------------------------------------------------------

type replayFile struct {
	Property string    `json:"property"`
	Rule     string    `json:"rule"`
	Sig      string    `json:"sig"`
	Msg      string    `json:"msg"`
	Seed     uint64    `json:"verif_seed"`
	Idx      int       `json:"run_index"`
	Tier     string    `json:"tier"`
	TreeHash string    `json:"tree_hash"`
	Tape     []Entry   `json:"tape"`
	Trace    []string  `json:"trace"`
	OrigLen  int       `json:"original_tape_len"`
	MinExecs int       `json:"minimiser_executions"`
}

type evidence struct {
	PropertyID  string         `json:"property_id"`
	Tier        string         `json:"tier"`
	Seed        int64          `json:"seed"`
	Level       string         `json:"level"`
	Coverage    map[string]any `json:"coverage"`
	Assumptions []string       `json:"assumptions"`
	WallS       float64        `json:"wall_s"`
	Violations  int            `json:"violations"`
}

// outDir: evidence and replays describe /repo; runs against another tree (VERIF_REPO, used for seeded changes) write elsewhere.
func outDir(kind string) string {
	if repoDir != "/repo" {
		return filepath.Join(os.TempDir(), "vcheck-alt-"+kind)
	}
	return filepath.Join(verifDir, kind)
}

func writeEvidence(prop string, ev *evidence) {
	_ = os.MkdirAll(outDir("evidence"), 0o755)
	b, _ := json.MarshalIndent(ev, "", " ")
	if err := os.WriteFile(filepath.Join(outDir("evidence"), prop+".json"), append(b, '\n'), 0o644); err != nil {
		die2("write evidence: %v", err)
	}
}

func main() {
	prop := flag.String("property", "", "property id (C01…)")
	tier := flag.String("tier", envOr("VERIF_TIER", "quick"), "quick|thorough")
	replay := flag.String("replay", "", "replay file")
	selfcheck := flag.Bool("selfcheck", false, "determinism self-check")
	runs := flag.Int("runs", 0, "override number of runs")
	oneIdx := flag.Int("idx", -1, "debug: execute a single run index and print its trace")
	dbgRange := flag.String("range", "", "debug: lo:hi:stride — execute that index range in ONE worker process and print violations")
	warm := flag.Bool("warm", false, "build the E1 and E2 workers once to warm the toolchain caches, then exit")
	flag.Parse()
	if wd, err := os.Getwd(); err == nil {
		if _, err := os.Stat(filepath.Join(wd, "MANIFEST.json")); err == nil {
			verifDir = wd
		}
	}
	if v := os.Getenv("VERIF_DIR"); v != "" {
		verifDir = v
	}
	seed, _ := strconv.ParseUint(envOr("VERIF_SEED", "1"), 10, 64)

	if *warm {
		for _, p := range []string{"C09", "C14"} {
			b := doBuild(props[p], p)
			b.cleanup()
		}
		fmt.Println("warm ok")
		os.Exit(0)
	}
	if *replay != "" {
		os.Exit(doReplay(*replay))
	}
	cfg := props[*prop]
	if cfg == nil {
		die2("unknown property %q", *prop)
	}
	if cfg.Engine == "E3" {
		os.Exit(runE3(*prop, cfg, *tier, seed))
	}
	if *selfcheck {
		os.Exit(doSelfcheck(*prop, cfg, seed))
	}
	if *dbgRange != "" {
		var lo, hi, st int
		fmt.Sscanf(*dbgRange, "%d:%d:%d", &lo, &hi, &st)
		b := doBuild(cfg, *prop)
		defer b.cleanup()
		res, err := b.runWorker(Spec{Property: *prop, Seed: seed, Tier: *tier, Lo: lo, Hi: hi, Stride: st, KeepTape: os.Getenv("VERIF_DBG_TRACE") != "", Verbose: os.Getenv("VERIF_DBG_TRACE") != ""}, 0, 60*time.Minute)
		if err != nil {
			fmt.Println("worker error:", err)
		}
		for _, r := range res {
			for _, v := range r.Viols {
				fmt.Printf("run %d VIOL %s/%s: %s\n", r.Idx, v.Rule, v.Sig, oneLine(v.Msg))
			}
			if r.Harness != "" {
				fmt.Printf("run %d HARNESS %s\n", r.Idx, r.Harness)
			}
			if r.Idx == hi-1 {
				fmt.Printf("run %d hash=%x (after the warm-up range)\n%s", r.Idx, r.Hash, r.Trace)
			}
		}
		fmt.Printf("%d runs\n", len(res))
		b.cleanup()
		os.Exit(0)
	}
	if *oneIdx >= 0 {
		b := doBuild(cfg, *prop)
		defer b.cleanup()
		for rep := 0; rep < 2; rep++ {
			res, err := b.runWorker(Spec{Property: *prop, Seed: seed, Tier: *tier, Lo: *oneIdx, Hi: *oneIdx + 1, Stride: 1, KeepTape: true, Verbose: true}, []int{1, 16}[rep], 10*time.Minute)
			if err != nil {
				fmt.Println("worker error:", err)
			}
			for _, r := range res {
				fmt.Printf("--- run %d rep %d hash=%x harness=%q\n%s", r.Idx, rep, r.Hash, r.Harness, r.Trace)
				for _, v := range r.Viols {
					fmt.Printf("  VIOL %s/%s: %s\n", v.Rule, v.Sig, v.Msg)
				}
			}
		}
		b.cleanup()
		os.Exit(0)
	}
	os.Exit(runCheck(*prop, cfg, *tier, seed, *runs))
}

func nWorkers() int {
	n := runtime.NumCPU()
	if n > 16 {
		n = 16
	}
	if v, err := strconv.Atoi(os.Getenv("VERIF_WORKERS")); err == nil && v > 0 {
		n = v
	}
	return n
}

func runCheck(prop string, cfg *propCfg, tier string, seed uint64, runsOverride int) int {
	start := time.Now()
	b := doBuild(cfg, prop)
	defer b.cleanup()
	buildS := time.Since(start).Seconds()

	W := nWorkers()
	total := cfg.QuickRuns
	budget := 0.0
	if tier == "thorough" {
		total = cfg.ThoroughMax
		budget, _ = strconv.ParseFloat(envOr("VERIF_BUDGET_S", "600"), 64)
	}
	if runsOverride > 0 {
		total = runsOverride
	}
	var mu sync.Mutex
	var all []Result
	var werrs []string
	var wg sync.WaitGroup
	for k := 0; k < W; k++ {
		wg.Add(1)
		go func(k int) {
			defer wg.Done()
			// a slot runs its index sequence k, k+W, ... in successive worker processes of bounded lifetime
			lo := k
			for lo < total {
				left := 0.0
				if budget > 0 {
					left = budget - (time.Since(start).Seconds() - buildS)
					if left <= 1 {
						break
					}
				}
				sp := Spec{Property: prop, Seed: seed, Tier: tier, Lo: lo, Hi: total, Stride: W, BudgetS: left, MaxRuns: 4000}
				to := 20 * time.Minute
				if budget > 0 {
					to = time.Duration(left*float64(time.Second)) + 10*time.Minute
				}
				res, err := b.runWorker(sp, 0, to)
				mu.Lock()
				all = append(all, res...)
				if err != nil {
					werrs = append(werrs, err.Error())
				}
				mu.Unlock()
				if err != nil || len(res) == 0 {
					break
				}
				lo = res[len(res)-1].Idx + W
			}
		}(k)
	}
	wg.Wait()
	if len(werrs) > 0 {
		fmt.Fprintf(os.Stderr, "vcheck: worker trouble:\n%s\n", strings.Join(werrs, "\n---\n"))
		return 2
	}
	sort.Slice(all, func(i, j int) bool { return all[i].Idx < all[j].Idx })
	searchS := time.Since(start).Seconds() - buildS

	// determinism sample: re-execute some runs in a second process with another GOMAXPROCS
	detCode, hist := determinismSample(b, prop, tier, seed, all)
	var histLines []string
	if detCode == 0 {
		histLines = reportHistory(b, prop, tier, seed, hist)
	}
	// a violation that reproduces from its replay file in a fresh process stands on its own, whatever else is going on;
	// only when there is none does an unexplained difference between two executions of the same run make the whole
	// check inconclusive (exit 2)
	rc := aggregate(b, prop, cfg, tier, seed, all, start, buildS, searchS)
	for _, l := range histLines {
		fmt.Println(l)
		rc = 1
	}
	if rc == 0 && detCode != 0 {
		return detCode
	}
	return rc
}

// historyProps: properties whose very subject is that a run does not depend on what the process did before. For
// them, "the same run index behaves differently in a warm worker than in a fresh process" IS the violation, provided
// two fresh processes agree with each other (otherwise it is harness nondeterminism).
var historyProps = map[string]bool{"C04": true, "C07": true}

type histViolation struct {
	Idx, Lo, Stride int
	Warm, Cold      uint64
}

func determinismSample(b *build, prop, tier string, seed uint64, all []Result) (int, []histViolation) {
	if len(all) == 0 {
		return 0, nil
	}
	n := 16
	if len(all) < n {
		n = len(all)
	}
	step := len(all) / n
	byIdx := map[int]Result{}
	for _, r := range all {
		byIdx[r.Idx] = r
	}
	var mism []string
	var hist []histViolation
	var wg sync.WaitGroup
	var mu sync.Mutex
	W := nWorkers()
	for i := 0; i < n; i++ {
		idx := all[i*step].Idx
		wg.Add(1)
		go func(idx, i int) {
			defer wg.Done()
			sp := Spec{Property: prop, Seed: seed, Tier: tier, Lo: idx, Hi: idx + 1, Stride: 1}
			res, err := b.runWorker(sp, []int{1, 4, 16}[i%3], 10*time.Minute)
			mu.Lock()
			defer mu.Unlock()
			if err != nil || len(res) != 1 {
				mism = append(mism, fmt.Sprintf("idx %d: rerun failed: %v", idx, err))
				return
			}
			// race reports are emitted once per process by the detector: they are attributed to the first run that
			// exhibits them and are therefore not part of the per-run determinism comparison
			if res[0].Hash != byIdx[idx].Hash || nonRace(res[0].Viols) != nonRace(byIdx[idx].Viols) {
				if historyProps[prop] {
					mu.Unlock()
					res2, err2 := b.runWorker(sp, 0, 10*time.Minute)
					mu.Lock()
					if err2 == nil && len(res2) == 1 && res2[0].Hash == res[0].Hash {
						hist = append(hist, histViolation{Idx: idx, Lo: idx % W, Stride: W, Warm: byIdx[idx].Hash, Cold: res[0].Hash})
						return
					}
				}
				mism = append(mism, fmt.Sprintf("idx %d: history hash %x vs %x; violations %v vs %v", idx, res[0].Hash, byIdx[idx].Hash, sigs(res[0].Viols), sigs(byIdx[idx].Viols)))
			}
		}(idx, i)
	}
	wg.Wait()
	if len(mism) > 0 {
		fmt.Fprintf(os.Stderr, "vcheck: harness nondeterminism (not a verdict):\n%s\n", strings.Join(mism, "\n"))
		return 2, nil
	}
	return 0, hist
}

type rangeReplay struct {
	Property string `json:"property"`
	Kind     string `json:"kind"` // "history-range"
	Rule     string `json:"rule"`
	Sig      string `json:"sig"`
	Msg      string `json:"msg"`
	Seed     uint64 `json:"verif_seed"`
	Tier     string `json:"tier"`
	Lo       int    `json:"lo"`
	Stride   int    `json:"stride"`
	Idx      int    `json:"run_index"`
	TreeHash string `json:"tree_hash"`
}

// historyCheck: run indices lo, lo+stride, ..., idx in ONE process (warm) and idx alone in two fresh ones.
func historyCheck(b *build, prop, tier string, seed uint64, lo, stride, idx int) (violated bool, msg string, err error) {
	warm, err := b.runWorker(Spec{Property: prop, Seed: seed, Tier: tier, Lo: lo, Hi: idx + 1, Stride: stride}, 0, 60*time.Minute)
	if err != nil || len(warm) == 0 || warm[len(warm)-1].Idx != idx {
		return false, "", fmt.Errorf("warm range failed: %v", err)
	}
	sp := Spec{Property: prop, Seed: seed, Tier: tier, Lo: idx, Hi: idx + 1, Stride: 1}
	c1, err1 := b.runWorker(sp, 1, 10*time.Minute)
	c2, err2 := b.runWorker(sp, 16, 10*time.Minute)
	if err1 != nil || err2 != nil || len(c1) != 1 || len(c2) != 1 {
		return false, "", fmt.Errorf("cold reruns failed: %v %v", err1, err2)
	}
	if c1[0].Hash != c2[0].Hash {
		return false, "", fmt.Errorf("two fresh processes disagree (%x vs %x): harness nondeterminism", c1[0].Hash, c2[0].Hash)
	}
	w := warm[len(warm)-1].Hash
	if w != c1[0].Hash {
		return true, fmt.Sprintf("run %d behaves differently after runs %d,%d,... in the same process (history hash %x) than in a fresh process (%x, confirmed by a second fresh process): the test cases / values / minimized result depend on what the process did before", idx, lo, lo+stride, w, c1[0].Hash), nil
	}
	return false, "", nil
}

// warmViolation re-runs the index range that preceded idx in its worker, in one process, and checks that the same
// violation shows up at idx; the replay file then describes that range.
func warmViolation(b *build, prop, tier string, seed uint64, v Violation, idx int) (string, bool) {
	W := nWorkers()
	lo := idx % W
	res, err := b.runWorker(Spec{Property: prop, Seed: seed, Tier: tier, Lo: lo, Hi: idx + 1, Stride: W}, 0, 60*time.Minute)
	if err != nil || len(res) == 0 || res[len(res)-1].Idx != idx || !hasViol(res[len(res)-1], v.Rule, v.Sig) {
		return "", false
	}
	rf := rangeReplay{Property: prop, Kind: "warm-violation", Rule: v.Rule, Sig: v.Sig, Msg: v.Msg + " (only after the runs that preceded it in the same process: behaviour depends on process history)", Seed: seed, Tier: tier, Lo: lo, Stride: W, Idx: idx, TreeHash: b.treeHash}
	_ = os.MkdirAll(outDir("replays"), 0o755)
	path := filepath.Join(outDir("replays"), fmt.Sprintf("%s-%s-warm-seed%d-run%d.json", prop, sanitize(v.Rule+"-"+v.Sig), seed, idx))
	jb, _ := json.MarshalIndent(rf, "", " ")
	_ = os.WriteFile(path, jb, 0o644)
	return path, true
}

func reportHistory(b *build, prop, tier string, seed uint64, hist []histViolation) []string {
	if len(hist) == 0 {
		return nil
	}
	h := hist[0]
	ok, msg, err := historyCheck(b, prop, tier, seed, h.Lo, h.Stride, h.Idx)
	if err != nil || !ok {
		fmt.Fprintf(os.Stderr, "vcheck: history dependence of run %d did not reproduce (%v): harness nondeterminism (not a verdict)\n", h.Idx, err)
		os.Exit(2)
	}
	rule, sig := prop+".history", "process-history-dependent"
	if f := knownFor(loadFindings(), prop, Violation{Rule: rule, Sig: sig}); f != nil {
		fmt.Printf("KNOWN-FINDING: property=%s sig=%s/%s %s\n", prop, rule, sig, f.Text)
		return nil
	}
	rf := rangeReplay{Property: prop, Kind: "history-range", Rule: rule, Sig: sig, Msg: msg, Seed: seed, Tier: tier, Lo: h.Lo, Stride: h.Stride, Idx: h.Idx, TreeHash: b.treeHash}
	_ = os.MkdirAll(outDir("replays"), 0o755)
	path := filepath.Join(outDir("replays"), fmt.Sprintf("%s-history-seed%d-run%d.json", prop, seed, h.Idx))
	jb, _ := json.MarshalIndent(rf, "", " ")
	_ = os.WriteFile(path, jb, 0o644)
	fmt.Printf("violation %s/%s in %d sampled runs; first: %s\n", rule, sig, len(hist), msg)
	return []string{fmt.Sprintf("VIOLATION property=%s replay=%s", prop, path)}
}

func sigs(vs []Violation) []string {
	var out []string
	for _, v := range vs {
		out = append(out, v.Rule+"/"+v.Sig)
	}
	return out
}

func nonRace(vs []Violation) int {
	n := 0
	for _, v := range vs {
		if !strings.HasPrefix(v.Sig, "race:") {
			n++
		}
	}
	return n
}

func aggregate(b *build, prop string, cfg *propCfg, tier string, seed uint64, all []Result, start time.Time, buildS, searchS float64) int {
	stats := map[string]int{}
	shapes := map[uint64]bool{}
	keys := map[uint64]bool{}
	var simNs float64
	var samples []any
	harness := []string{}
	type vrec struct {
		v Violation
		r Result
	}
	groups := map[string][]vrec{}
	var gorder []string
	nviol := 0
	for _, r := range all {
		if r.Harness != "" {
			harness = append(harness, fmt.Sprintf("run %d: %s", r.Idx, r.Harness))
			continue
		}
		for k, v := range r.Stats {
			stats[k] += v
		}
		for _, s := range r.Shapes {
			shapes[s] = true
		}
		if r.Nontriv {
			keys[r.Key] = true
		}
		simNs += float64(r.SimNs)
		if r.Sample != "" && len(samples) < 5 && (r.Idx%7 == 0 || len(all) < 40) {
			samples = append(samples, map[string]any{"run_index": r.Idx, "case": r.Sample})
		}
		seen := map[string]bool{}
		troubled := false
		for _, v := range r.Viols {
			if v.Rule == "harness" {
				troubled = true // the harness could not read this run: nothing else it says about it counts
			}
		}
		for _, v := range r.Viols {
			if troubled && v.Rule != "harness" {
				continue
			}
			k := v.Rule + "/" + v.Sig
			if seen[k] {
				continue
			}
			seen[k] = true
			if _, ok := groups[k]; !ok {
				gorder = append(gorder, k)
			}
			groups[k] = append(groups[k], vrec{v, r})
			nviol++
		}
	}
	if len(harness) > 0 {
		fmt.Fprintf(os.Stderr, "vcheck: harness trouble in %d runs (not a verdict):\n%s\n", len(harness), harness[0])
		return 2
	}
	if len(samples) == 0 {
		for _, r := range all {
			if r.Sample != "" {
				samples = append(samples, map[string]any{"run_index": r.Idx, "case": r.Sample})
				break
			}
		}
	}
	if len(samples) == 0 {
		samples = append(samples, "no sample recorded")
	}

	findings := loadFindings()
	exit := 0
	unreproduced := 0
	minStart := time.Now()
	knownSeen := map[string]int{}
	var newViolLines []string
	sort.Strings(gorder)
	harnessTrouble := 0
	for _, k := range gorder {
		g := groups[k]
		if g[0].v.Rule == "harness" {
			// the harness could not do or read something (child process, unreadable report, step bound): trouble, never a verdict
			fmt.Fprintf(os.Stderr, "vcheck: harness trouble %s in %d runs (not a verdict); first: run %d: %s\n", k, len(g), g[0].r.Idx, oneLine(g[0].v.Msg))
			harnessTrouble++
			continue
		}
		if f := knownFor(findings, prop, g[0].v); f != nil {
			knownSeen[k] = len(g)
			fmt.Printf("KNOWN-FINDING: property=%s sig=%s %s (seen in %d runs, e.g. run %d: %s)\n", prop, k, f.Text, len(g), g[0].r.Idx, oneLine(g[0].v.Msg))
			continue
		}
		// new violation: minimise the first occurrence, replay in a fresh process, report
		first := g[0]
		if time.Since(minStart) > 150*time.Second {
			minBudgetExecs = 1 // overall minimisation budget used up: report the remaining ones unminimised
		}
		path, ok := minimiseAndWrite(b, prop, tier, seed, first.v, first.r)
		if !ok && historyProps[prop] {
			// not reproducible from a cold start: for these properties dependence on what the process did before is
			// itself the subject; reproduce it in its warm context (the indices this worker ran before it)
			path, ok = warmViolation(b, prop, tier, seed, first.v, first.r.Idx)
		}
		if !ok {
			fmt.Fprintf(os.Stderr, "vcheck: violation %s of run %d did not reproduce in a fresh process (not reported)\n", k, first.r.Idx)
			unreproduced++
			continue
		}
		exit = 1
		newViolLines = append(newViolLines, fmt.Sprintf("VIOLATION property=%s replay=%s", prop, path))
		fmt.Printf("violation %s in %d runs; first: run %d: %s\n", k, len(g), first.r.Idx, oneLine(first.v.Msg))
	}

	faults := map[string]int{}
	probes := map[string]int{}
	verdicts := map[string]int{}
	other := map[string]int{}
	for k, v := range stats {
		switch {
		case strings.HasPrefix(k, "fault."):
			faults[strings.TrimPrefix(k, "fault.")] = v
		case strings.HasPrefix(k, "probe."):
			probes[strings.TrimPrefix(k, "probe.")] = v
		case strings.HasPrefix(k, "verdict."):
			verdicts[strings.TrimPrefix(k, "verdict.")] = v
		default:
			other[k] = v
		}
	}
	wall := time.Since(start).Seconds()
	cov := map[string]any{
		"evaluations":               len(all),
		"distinct_nontrivial":       len(keys),
		"rule":                      cfg.Rule,
		"samples":                   samples,
		"runs_per_hour":             int(float64(len(all)) / searchS * 3600),
		"seeds_per_hour":            int(float64(len(all)) / searchS * 3600),
		"simulated_time_s":          simNs / 1e9,
		"simulated_time_note":       cfg.SimTimeNote,
		"faults_fired":              faults,
		"probes":                    probes,
		"verdicts":                  verdicts,
		"counters":                  other,
		"distinct_history_shapes":   len(shapes),
		"known_findings_seen":       knownSeen,
		"violation_runs":            nviol,
		"real_vs_stub":              cfg.RealStub,
		"workers":                   nWorkers(),
		"build_s":                   buildS,
		"search_s":                  searchS,
		"tree_hash":                 b.treeHash,
		"determinism_sample_reruns": min(16, len(all)),
		"engine":                    cfg.Engine,
	}
	var zeroProbes []string
	for k, v := range probes {
		if v == 0 {
			zeroProbes = append(zeroProbes, k)
		}
	}
	cov["probes_stuck_at_zero"] = zeroProbes
	ev := &evidence{PropertyID: prop, Tier: tier, Seed: int64(seed), Level: cfg.Level, Coverage: cov, WallS: wall,
		Violations: len(newViolLines),
		Assumptions: []string{
			"generated property programs are deterministic functions of their draws (by construction)",
			"Go 1.26.8 runtime and testing/synctest behave as documented; behaviour that differs between Go 1.26.8 and the repository's baseline toolchain is not seen",
			"a clean batch is evidence, not proof: seeded search over schedules/faults, not exhaustive",
		}}
	writeEvidence(prop, ev)
	for _, l := range newViolLines {
		fmt.Println(l)
	}
	if exit == 0 && harnessTrouble > 0 {
		exit = 2
	}
	if exit == 0 && unreproduced > 0 {
		fmt.Fprintf(os.Stderr, "vcheck: %d violation classes did not reproduce in a fresh process and none did: harness nondeterminism (not a verdict)\n", unreproduced)
		exit = 2
	}
	fmt.Printf("%s %s: %d runs (%d distinct non-trivial), %d shapes, sim %.0fs, build %.1fs search %.1fs, violations(new)=%d known=%d\n",
		prop, tier, len(all), len(keys), len(shapes), float64(simNs)/1e9, buildS, searchS, len(newViolLines), len(knownSeen))
	return exit
}

func oneLine(s string) string {
	s = strings.ReplaceAll(s, "\n", " | ")
	if len(s) > 300 {
		s = s[:300] + "…"
	}
	return s
}

func minimiseAndWrite(b *build, prop, tier string, seed uint64, v Violation, r Result) (string, bool) {
	sp := Spec{Property: prop, Seed: seed, Tier: tier}
	m := &minimiser{b: b, spec: sp, rule: v.Rule, sig: v.Sig, start: time.Now(), maxEx: minBudgetExecs, maxT: 60 * time.Second}
	tape := r.Tape
	// first confirm the recorded tape reproduces in replay mode at all
	i, r0 := m.test([][]Entry{tape})
	if i != 0 {
		return "", false
	}
	minTape, minRes := m.run(tape)
	if minRes == nil {
		minRes = r0
		minTape = tape
	}
	// fresh-process replay of the final tape
	sp.Tapes = [][]Entry{minTape}
	res, err := b.runWorker(sp, 0, 120*time.Second)
	if err != nil || len(res) != 1 || !hasViol(res[0], v.Rule, v.Sig) {
		// fall back to the unminimised tape
		sp.Tapes = [][]Entry{tape}
		res, err = b.runWorker(sp, 0, 120*time.Second)
		if err != nil || len(res) != 1 || !hasViol(res[0], v.Rule, v.Sig) {
			return "", false
		}
		minTape = tape
	}
	final := res[0]
	msg := v.Msg
	for _, fv := range final.Viols {
		if fv.Rule == v.Rule && fv.Sig == v.Sig {
			msg = fv.Msg
		}
	}
	rf := replayFile{Property: prop, Rule: v.Rule, Sig: v.Sig, Msg: msg, Seed: seed, Idx: r.Idx, Tier: tier, TreeHash: b.treeHash,
		Tape: minTape, Trace: strings.Split(strings.TrimRight(final.Trace, "\n"), "\n"), OrigLen: len(tape), MinExecs: m.execs}
	_ = os.MkdirAll(outDir("replays"), 0o755)
	name := fmt.Sprintf("%s-%s-seed%d-run%d.json", prop, sanitize(v.Rule+"-"+v.Sig), seed, r.Idx)
	path := filepath.Join(outDir("replays"), name)
	jb, _ := json.MarshalIndent(rf, "", " ")
	if err := os.WriteFile(path, jb, 0o644); err != nil {
		die2("write replay: %v", err)
	}
	return path, true
}

func sanitize(s string) string {
	var b strings.Builder
	for _, r := range s {
		if r >= 'a' && r <= 'z' || r >= 'A' && r <= 'Z' || r >= '0' && r <= '9' || r == '-' || r == '.' {
			b.WriteRune(r)
		} else {
			b.WriteRune('_')
		}
	}
	return b.String()
}

func doReplay(path string) int {
	jb, err := os.ReadFile(path)
	if err != nil {
		die2("%v", err)
	}
	var rr rangeReplay
	if json.Unmarshal(jb, &rr) == nil && rr.Kind == "warm-violation" {
		cfg := props[rr.Property]
		if cfg == nil {
			die2("unknown property %q", rr.Property)
		}
		b := doBuild(cfg, rr.Property)
		defer b.cleanup()
		res, err := b.runWorker(Spec{Property: rr.Property, Seed: rr.Seed, Tier: rr.Tier, Lo: rr.Lo, Hi: rr.Idx + 1, Stride: rr.Stride}, 0, 60*time.Minute)
		if err != nil || len(res) == 0 {
			die2("warm replay: %v", err)
		}
		last := res[len(res)-1]
		for _, v := range last.Viols {
			fmt.Printf("  run %d rule %s sig %s: %s\n", last.Idx, v.Rule, v.Sig, oneLine(v.Msg))
		}
		if last.Idx == rr.Idx && hasViol(last, rr.Rule, rr.Sig) {
			fmt.Printf("VIOLATION property=%s replay=%s\n", rr.Property, path)
			b.cleanup()
			return 1
		}
		fmt.Printf("replay of %s: violation %s/%s NOT reproduced on this tree\n", path, rr.Rule, rr.Sig)
		return 0
	}
	if json.Unmarshal(jb, &rr) == nil && rr.Kind == "history-range" {
		cfg := props[rr.Property]
		if cfg == nil {
			die2("unknown property %q", rr.Property)
		}
		b := doBuild(cfg, rr.Property)
		defer b.cleanup()
		ok, msg, err := historyCheck(b, rr.Property, rr.Tier, rr.Seed, rr.Lo, rr.Stride, rr.Idx)
		if err != nil {
			die2("history replay: %v", err)
		}
		if ok {
			fmt.Println(msg)
			fmt.Printf("VIOLATION property=%s replay=%s\n", rr.Property, path)
			b.cleanup()
			return 1
		}
		fmt.Printf("replay of %s: history dependence NOT reproduced on this tree\n", path)
		return 0
	}
	var rf replayFile
	if err := json.Unmarshal(jb, &rf); err != nil {
		die2("%v", err)
	}
	cfg := props[rf.Property]
	if cfg == nil {
		die2("unknown property %q", rf.Property)
	}
	if cfg.Engine == "E3" {
		return replayE3(path, jb)
	}
	b := doBuild(cfg, rf.Property)
	defer b.cleanup()
	sp := Spec{Property: rf.Property, Seed: rf.Seed, Tier: rf.Tier, Tapes: [][]Entry{rf.Tape}, Verbose: true}
	res, err := b.runWorker(sp, 0, 10*time.Minute)
	if err != nil || len(res) != 1 {
		die2("replay worker: %v", err)
	}
	fmt.Print(res[0].Trace)
	if res[0].Harness != "" {
		die2("harness trouble: %s", res[0].Harness)
	}
	for _, v := range res[0].Viols {
		fmt.Printf("  rule %s sig %s: %s\n", v.Rule, v.Sig, v.Msg)
	}
	if hasViol(res[0], rf.Rule, rf.Sig) {
		if b.treeHash != rf.TreeHash {
			fmt.Printf("note: tree hash %s differs from the one the replay was found on (%s)\n", b.treeHash, rf.TreeHash)
		}
		fmt.Printf("VIOLATION property=%s replay=%s\n", rf.Property, path)
		return 1
	}
	fmt.Printf("replay of %s: violation %s/%s NOT reproduced on this tree (tree %s, found on %s)\n", path, rf.Rule, rf.Sig, b.treeHash, rf.TreeHash)
	return 0
}

// doSelfcheck: ≥40 tape seeds × 2 executions each, over ≥30 worker processes at GOMAXPROCS 1, 4, 16.
func doSelfcheck(prop string, cfg *propCfg, seed uint64) int {
	b := doBuild(cfg, prop)
	defer b.cleanup()
	const nIdx = 48
	type key struct{ idx, rep int }
	hashes := map[key]uint64{}
	var mu sync.Mutex
	var wg sync.WaitGroup
	sem := make(chan struct{}, nWorkers())
	procs := 0
	var errs []string
	for rep := 0; rep < 3; rep++ {
		for chunk := 0; chunk < 12; chunk++ {
			wg.Add(1)
			procs++
			sem <- struct{}{}
			go func(rep, chunk int) {
				defer wg.Done()
				defer func() { <-sem }()
				sp := Spec{Property: prop, Seed: seed, Tier: "quick", Lo: chunk * 4, Hi: chunk*4 + 4, Stride: 1}
				res, err := b.runWorker(sp, []int{1, 4, 16}[rep], 20*time.Minute)
				mu.Lock()
				defer mu.Unlock()
				if err != nil {
					errs = append(errs, err.Error())
				}
				for _, r := range res {
					hashes[key{r.Idx, rep}] = r.Hash ^ uint64(len(r.Viols))
				}
			}(rep, chunk)
		}
	}
	wg.Wait()
	if len(errs) > 0 {
		fmt.Fprintln(os.Stderr, strings.Join(errs, "\n"))
		return 2
	}
	bad := 0
	for i := 0; i < nIdx; i++ {
		if hashes[key{i, 0}] != hashes[key{i, 1}] || hashes[key{i, 0}] != hashes[key{i, 2}] {
			fmt.Printf("selfcheck %s: run %d hashes differ: %x %x %x\n", prop, i, hashes[key{i, 0}], hashes[key{i, 1}], hashes[key{i, 2}])
			bad++
		}
	}
	fmt.Printf("selfcheck %s: %d run indices × 3 executions (GOMAXPROCS 1/4/16) in %d worker processes: %d mismatches\n", prop, nIdx, procs, bad)
	if bad > 0 {
		return 2
	}
	return 0
}
