package main

func init() {
	props["C01"] = &propCfg{Engine: "E1", Level: "exploration", QuickRuns: 2400, ThoroughMax: 4_000_000, RealStub: e1RealStub,
		Rule:        "one run = (generated failing property program: 1-4 failure sites of every kind, rejection-based generators, state machines, Custom fns; flags checks/steps/seed/shrinktime/nofailfile/v/debug; clock policy FROZEN/DRIP/HEAVY/CUT(k,delta)/STALL with k uniform over the run's history; optional save-time failure) executed by the real rapid.Check in a synctest bubble (plus a FROZEN pilot for CUT/STALL, also judged); non-trivial = Check reported a failure; distinct by hash(program text, flags, resolved clock policy)",
		SimTimeNote: "sum of fake-clock advance inside synctest bubbles"}
	props["C09"] = &propCfg{Engine: "E1", Level: "exploration", QuickRuns: 1600, ThoroughMax: 4_000_000, RealStub: e1RealStub,
		Rule:        "one run = (generated never-failing or failing property program with a tape-chosen skip pattern, -rapid.checks N in {0,1,2,5,20,100}, 0-3 stale fail files produced by real failing runs, clock policy FROZEN/DRIP/CUT-near-deadline) executed by the real rapid.Check in a synctest bubble; non-trivial = at least one property invocation happened; distinct by hash(program text, rapid seed, N, clock policy, stale files)",
		SimTimeNote: "sum of fake-clock advance inside synctest bubbles"}
}
