package main

var e2RealStub = map[string]string{
	"rapid engine/generators": "real code rebuilt from /repo's working tree; sync operations mechanically rewritten into scheduler yield points (Lock -> TryLock loop, Unlock, Once.Do, yields before atomics / sync.Map) by a go/types-driven tool",
	"Go runtime, sync, context, race detector": "real (Go 1.26.8, -race)",
	"goroutine scheduler": "stub: baton scheduler decides every switch at yield points; real goroutines parked in raw futex waits (no happens-before edge from the harness)",
	"testing.TB":          "stub: e2TB (norace recording)",
	"clock":               "real but irrelevant (shrinktime 1h, 24h deadline, runs last milliseconds)",
	"file system":         "not used (-rapid.nofailfile)",
	"user code":           "stub: generated operation lists per simulated goroutine",
}

func init() {
	props["C15"] = &propCfg{Engine: "E2", Level: "exploration", QuickRuns: 1500, ThoroughMax: 4_000_000, Race: true, Instrument: true, RealStub: e2RealStub,
		Rule:        "one run = one freshly built generator expression (nesting of IntRange, Filter, Map, OneOf, Deferred, Custom, StringMatching incl. look-alike regexps, String, StringOf, StringN, SliceOfBytesMatching, SampledFrom, SliceOfN, SliceOfDistinct, MapOf/MapOfN/MapOfValues, Permutation, Ptr, Float64Range, Make; depth <= 4) shared by 2-4 simulated goroutines, each performing one use with its own T: a passing Check, a failing (minimizing) Check, Example(seed), String(), or use as a sub-generator; first uses race with later uses under a tape-chosen schedule policy; afterwards every use is repeated alone on a fresh generator and compared; non-trivial = every run (>= 2 goroutines share one generator); distinct by hash(schedule fingerprint, generator expression, uses)",
		SimTimeNote: "0: no clock in the scheduled sections; simulated time is not a dimension of this property"}
	props["C14"] = &propCfg{Engine: "E2", Level: "exploration", QuickRuns: 2000, ThoroughMax: 4_000_000, Race: true, Instrument: true, RealStub: e2RealStub,
		Rule:        "one run = a Check (checks 1-3, -rapid.v on/off, optionally on a Custom generator's inner T) whose property spawns 1-4 simulated goroutines, each with 1-6 tape-chosen operations from {Helper, Name, Log, Logf, Error, Errorf, Fail, Failed, Context, Cleanup(f)} while the main goroutine does the same; every invocation of the property is one scheduled section under a tape-chosen policy (uniform / bursty / PCT d=1..3); non-trivial = at least one section with >= 2 goroutines; distinct by hash(schedule fingerprints of all sections, operation lists)",
		SimTimeNote: "0: no clock in the scheduled sections; simulated time is not a dimension of this property"}
	props["C16"] = &propCfg{Engine: "E3", Level: "fault_enumeration", QuickRuns: 16, ThoroughMax: 400,
		Rule:        "one workload = (test name, 0-200 captured output lines -> that many write calls, 0-64 element bitstream, failure kind, pre-existing directory or not) saved by a real failing Check in a single-threaded child; its baseline strace gives the ordered list of FS-affecting calls under testdata/ (mkdirat, openat O_CREAT, every write, close, renameat, unlinkat); EVERY one of them is a crash point: a fresh child is SIGKILLed by strace on entry to that call (trace-prefix equality with the baseline is required, else the run is discarded), then the directory is judged (J1 byte comparison of every *.fail file with the uninterrupted save, J2 behaviour of a fresh process); distinct non-trivial = killed children whose trace matched",
		SimTimeNote: "0: real kernel FS and real (irrelevant) clock; the explored dimension is the crash point",
		RealStub: map[string]string{
			"rapid engine/persistence": "real code rebuilt from /repo's working tree",
			"file system":              "real kernel FS in a private scratch directory",
			"process crash":            "real SIGKILL injected by strace on entry to the chosen system call of the child's main thread",
			"testing.TB":               "stub: simTB",
			"clock":                    "real (no deadline can be reached: shrinktime=0, runs last milliseconds)",
			"user code":                "stub: generated property program",
		}}
	props["C17"] = &propCfg{Engine: "E1", Level: "fault_enumeration", QuickRuns: 2000, ThoroughMax: 4_000_000, RealStub: e1RealStub,
		Rule:        "one run = faults on durable state: a valid fail file is produced by a real failing run of a variant program, then 1-4 siblings are planted: truncation at any offset, single-bit flip, garbage, empty, NULs, >64KiB line, huge/negative/non-hex numbers, missing/doubled/extra version field, foreign version, CRLF, only comments, a directory or dangling symlink named *.fail, or the intact file while the test now passes; then the target program (passing or failing) runs with the files present and, for reference, in an empty directory; in the thorough tier half of the runs enumerate every truncation offset and every single-bit flip of a fixed reference file; non-trivial = a reference file existed and the differential pair ran; distinct by hash(target program, fault kinds and arguments, seed)",
		SimTimeNote: "sum of fake-clock advance inside synctest bubbles"}
	props["C06"] = &propCfg{Engine: "E1", Level: "exploration", QuickRuns: 1500, ThoroughMax: 4_000_000, RealStub: e1RealStub,
		Rule:        "one run = a two-run history over a real scratch directory: a generated failing program with hostile test names (unicode, separators, reserved device names) and hostile logged output (arbitrary bytes, CR/NUL/invalid UTF-8, lines that look like data, empty, 64KiB-1MiB lines), empty minimized bitstreams, stale fail files of another program present, clock cuts during run 1; then a restart (new bubble; same second / +1s / +1 year later) without any flag, or with -rapid.failfile=<moved file>; non-trivial = run 1 failed; distinct by hash(program, name, seed, checks, clock)",
		SimTimeNote: "sum of fake-clock advance inside synctest bubbles"}
	props["C04"] = &propCfg{Engine: "E1", ColdStart: true, Level: "exploration", QuickRuns: 1600, ThoroughMax: 4_000_000, RealStub: e1RealStub,
		Rule:        "one run = a history: 0-3 unrelated warm-up checks, then a generated failing program (rejection-heavy generators, state machines) run twice with the same seed in different bubbles, Example(seed) twice, restart over the same directory (fail-file replay), the unpruned recording through MakeFuzz, and (sampled) the same tape in a fresh OS process (cold caches); non-trivial = the main check failed (so record/prune/replay happened); distinct by hash(program text, seed, checks, shrinktime)",
		SimTimeNote: "sum of fake-clock advance inside synctest bubbles"}
	props["C02"] = &propCfg{Engine: "E1", Level: "exploration", QuickRuns: 3560, ThoroughMax: 4_000_000, RealStub: e1RealStub,
		Rule:        "the matrix (16 failure kinds (incl. Error()/Errorf(\"\") with an empty message) x 8 callback contexts x 9 positions in the run (incl. 'signal, then a Skip raised from a cleanup' and 'only in the first replay of an existing fail file'), minus impossible combinations = 890 cells) is enumerated over run indices (three of every four run indices walk through the 890 cells in order, so a quick run of 3560 indices visits every cell 3 times; the fourth index runs a generated program - non-fatal signals followed by Custom draws, state machines, cleanups, skips - under the same conservation oracle); seed, checks, steps, clock policy and k are sampled around each cell; non-trivial = the signal actually fired; distinct by hash(cell, k, seed, checks)",
		SimTimeNote: "sum of fake-clock advance inside synctest bubbles"}
	props["C05"] = &propCfg{Engine: "E1", Level: "exploration", QuickRuns: 1600, ThoroughMax: 4_000_000, RealStub: e1RealStub,
		Rule:        "one run = one tape: a generated program (35%: a template - collections of filtered elements with thresholds on sum and length at distinct sites) with 2-4 distinct failure sites (fatal at distinct call stacks, panics, runtime errors, the non-fatal site) and overlapping conditions, run once with a FROZEN clock (minimization must terminate by itself) and 1-3 more times with the clock cut (CUT(k,delta) with k uniform over the frozen run's history, or DRIP); non-trivial = the frozen run accepted at least one minimization step; distinct by hash(program text, rapid seed, checks)",
		SimTimeNote: "sum of fake-clock advance inside synctest bubbles"}
	props["C07"] = &propCfg{Engine: "E1", Level: "exploration", QuickRuns: 1500, ThoroughMax: 4_000_000, RealStub: e1RealStub,
		Rule:        "one run = one tape: a generated failing program gated by a selector draw with tape-chosen acceptance probability (so the first falsified case lands at indices 0..checks-1), executed twice under identical simulated time (fresh bubbles, fresh directories) and once more with the printed seed; non-trivial = the run failed; distinct by hash(program text, seed, checks, clock policy)",
		SimTimeNote: "sum of fake-clock advance inside synctest bubbles"}
	props["C10"] = &propCfg{Engine: "E1", Level: "exploration", QuickRuns: 2000, ThoroughMax: 4_000_000, RealStub: e1RealStub,
		Rule:        "one run = generated program dense in Cleanup (nested, failing, panicking), Context samples, goroutines parked on Done(), Custom fns with cleanups/contexts that are retried, state machines; failing and minimizing Checks under all clock policies (70% of the runs, with a restart over the same directory when a fail file was written), Generator.Example on Custom generators (15%) and MakeFuzz on arbitrary bytes (15%, outside a bubble); the bracket automaton is evaluated for every invocation of every kind (generation, reproduction, candidate, confirmation, capture, final replay, fail-file replay, Custom inner T, Example, fuzz); non-trivial = at least one cleanup or context in the run; distinct by hash(program text, flags, clock policy)",
		SimTimeNote: "sum of fake-clock advance inside synctest bubbles"}
	props["C11"] = &propCfg{Engine: "E1", Level: "exploration", QuickRuns: 2400, ThoroughMax: 4_000_000, RealStub: e1RealStub,
		Rule:        "one run = a selector program: each test case's behaviour in {pass, skip, errorf, errorf-then-skip, cleanup-time errorf, cleanup-time panic, fatal, errorf-then-generator-gives-up, skip-raised-by-the-last-cleanup} is a function of a drawn selector with tape-chosen weights, checks 2-60, all clock policies, -rapid.v on/off; the ordered pairs of consecutive behaviours are reach probes (on a correct tree only the 16 pairs whose first element is pass or skip can occur: a falsified case ends generation); non-trivial = at least two generated cases; distinct by hash(program text, seed, checks, clock)",
		SimTimeNote: "sum of fake-clock advance inside synctest bubbles"}
	props["C01"] = &propCfg{Engine: "E1", Level: "exploration", QuickRuns: 2400, ThoroughMax: 4_000_000, RealStub: e1RealStub,
		Rule:        "one run = (generated failing property program: 1-4 failure sites of every kind, rejection-based generators, state machines, Custom fns; flags checks/steps/seed/shrinktime/nofailfile/v/debug; clock policy FROZEN/DRIP/HEAVY/CUT(k,delta)/STALL with k uniform over the run's history; optional save-time failure) executed by the real rapid.Check in a synctest bubble (plus a FROZEN pilot for CUT/STALL, also judged); non-trivial = Check reported a failure; distinct by hash(program text, flags, resolved clock policy)",
		SimTimeNote: "sum of fake-clock advance inside synctest bubbles"}
	props["C09"] = &propCfg{Engine: "E1", Level: "exploration", QuickRuns: 1600, ThoroughMax: 4_000_000, RealStub: e1RealStub,
		Rule:        "one run = (generated never-failing or failing property program with a tape-chosen skip pattern, -rapid.checks N in {0,1,2,5,20,100}, 0-3 stale fail files produced by real failing runs, clock policy FROZEN/DRIP/CUT-near-deadline) executed by the real rapid.Check in a synctest bubble; non-trivial = at least one property invocation happened; distinct by hash(program text, rapid seed, N, clock policy, stale files)",
		SimTimeNote: "sum of fake-clock advance inside synctest bubbles"}
}
