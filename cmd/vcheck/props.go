package main

func init() {
	props["C05"] = &propCfg{Engine: "E1", Level: "exploration", QuickRuns: 1200, ThoroughMax: 4_000_000, RealStub: e1RealStub,
		Rule:        "one run = one tape: a generated program with 2-4 distinct failure sites (fatal at distinct call stacks, panics, runtime errors, the non-fatal site) and overlapping conditions, run once with a FROZEN clock (minimization must terminate by itself) and 1-3 more times with the clock cut (CUT(k,delta) with k uniform over the frozen run's history, or DRIP); non-trivial = the frozen run accepted at least one minimization step; distinct by hash(program text, rapid seed, checks)",
		SimTimeNote: "sum of fake-clock advance inside synctest bubbles"}
	props["C07"] = &propCfg{Engine: "E1", Level: "exploration", QuickRuns: 1500, ThoroughMax: 4_000_000, RealStub: e1RealStub,
		Rule:        "one run = one tape: a generated failing program gated by a selector draw with tape-chosen acceptance probability (so the first falsified case lands at indices 0..checks-1), executed twice under identical simulated time (fresh bubbles, fresh directories) and once more with the printed seed; non-trivial = the run failed; distinct by hash(program text, seed, checks, clock policy)",
		SimTimeNote: "sum of fake-clock advance inside synctest bubbles"}
	props["C10"] = &propCfg{Engine: "E1", Level: "exploration", QuickRuns: 2000, ThoroughMax: 4_000_000, RealStub: e1RealStub,
		Rule:        "one run = generated program dense in Cleanup (nested, failing, panicking), Context samples, goroutines parked on Done(), Custom fns with cleanups/contexts that are retried, state machines; failing and minimizing Checks under all clock policies; the bracket automaton is evaluated for every invocation of every kind; non-trivial = at least one cleanup or context in the run; distinct by hash(program text, flags, clock policy)",
		SimTimeNote: "sum of fake-clock advance inside synctest bubbles"}
	props["C11"] = &propCfg{Engine: "E1", Level: "exploration", QuickRuns: 2400, ThoroughMax: 4_000_000, RealStub: e1RealStub,
		Rule:        "one run = a selector program: each test case's behaviour in {pass, skip, errorf, errorf-then-skip, cleanup-time errorf, cleanup-time panic, fatal} is a function of a drawn selector with tape-chosen weights, checks 2-60, all clock policies, -rapid.v on/off; the 49 ordered pairs of consecutive behaviours are reach probes; non-trivial = at least two generated cases; distinct by hash(program text, seed, checks, clock)",
		SimTimeNote: "sum of fake-clock advance inside synctest bubbles"}
	props["C01"] = &propCfg{Engine: "E1", Level: "exploration", QuickRuns: 2400, ThoroughMax: 4_000_000, RealStub: e1RealStub,
		Rule:        "one run = (generated failing property program: 1-4 failure sites of every kind, rejection-based generators, state machines, Custom fns; flags checks/steps/seed/shrinktime/nofailfile/v/debug; clock policy FROZEN/DRIP/HEAVY/CUT(k,delta)/STALL with k uniform over the run's history; optional save-time failure) executed by the real rapid.Check in a synctest bubble (plus a FROZEN pilot for CUT/STALL, also judged); non-trivial = Check reported a failure; distinct by hash(program text, flags, resolved clock policy)",
		SimTimeNote: "sum of fake-clock advance inside synctest bubbles"}
	props["C09"] = &propCfg{Engine: "E1", Level: "exploration", QuickRuns: 1600, ThoroughMax: 4_000_000, RealStub: e1RealStub,
		Rule:        "one run = (generated never-failing or failing property program with a tape-chosen skip pattern, -rapid.checks N in {0,1,2,5,20,100}, 0-3 stale fail files produced by real failing runs, clock policy FROZEN/DRIP/CUT-near-deadline) executed by the real rapid.Check in a synctest bubble; non-trivial = at least one property invocation happened; distinct by hash(program text, rapid seed, N, clock policy, stale files)",
		SimTimeNote: "sum of fake-clock advance inside synctest bubbles"}
}
