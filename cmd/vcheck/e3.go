package main

func runE3(prop string, cfg *propCfg, tier string, seed uint64) int { die2("E3 not built yet"); return 2 }
func replayE3(path string, jb []byte) int                             { die2("E3 not built yet"); return 2 }
