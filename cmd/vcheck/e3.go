package main

// Engine E3: crash injector. Every file-system-affecting system call of a real saveFailFile is a crash point:
// the child is SIGKILLed by strace on entry to that call, then the surviving directory is judged.

import (
	"syscall"
	"encoding/json"
	"fmt"
	"os"
	"os/exec"
	"path/filepath"
	"regexp"
	"sort"
	"strconv"
	"strings"
	"sync"
	"time"
)

type E3Workload struct {
	Name     string `json:"name"`
	Lines    int    `json:"lines"`
	LineLen  int    `json:"line_len"`
	Words    int    `json:"words"`
	Seed     uint64 `json:"seed"`
	FailKind int    `json:"fail_kind"`
	PreState string `json:"pre_state"` // "empty", "dir-exists", "crashed-save-leftover"
	Double     bool `json:"double"` // two failing Checks of the same test in one process
	TmpOtherFS bool `json:"tmpdir_other_fs"` // the child's TMPDIR lives on another file system (tmpfs)
	NoDraw     bool `json:"no_draw"`         // the property draws nothing (with Lines == 0: empty output AND empty bitstream)
	Flaky      bool `json:"flaky"`           // first execution fails at one site, later ones at another: rapid reports a flaky test (and still saves)
}

// normal: combinations that are not supported together are reduced to the simpler one.
func (wl E3Workload) normal() E3Workload {
	if wl.Double {
		wl.PreState = "empty"
		wl.Flaky = false
	}
	return wl
}

type E3Report struct {
	Verdict       string   `json:"verdict"`
	AfterTests    int      `json:"after_tests"`
	FailFilePhase int      `json:"failfile_invocations"`
	RandomCases   int      `json:"random_cases"`
	FirstDraws    string   `json:"first_draws"`
	FirstBuf      []uint64 `json:"first_buf"`
	IgnoredLogs   []string `json:"ignored_logs"`
	TBFailed      bool     `json:"tb_failed"`
	Escaped       string   `json:"escaped"`
	FailFileNamed string   `json:"fail_file_named"`
	FinalBuf      []uint64 `json:"final_buf"`
	FinalDraws    string   `json:"final_draws"`
}

const e3TraceSet = "mkdir,mkdirat,open,openat,creat,write,pwrite64,writev,close,rename,renameat,renameat2,unlink,unlinkat,rmdir,link,linkat,symlink,symlinkat,fsync,fdatasync,ftruncate,truncate"

type fsCall struct {
	Name    string
	Ordinal int    // n-th call of this syscall name on the main thread since process start
	Text    string // trace line (args), for humans
}

var reTraceLine = regexp.MustCompile(`^(\d+)\s+(.*)$`)
var reSyscall = regexp.MustCompile(`^([a-z0-9_]+)\((.*)$`)
var reResumed = regexp.MustCompile(`^<\.\.\. ([a-z0-9_]+) resumed>(.*)$`)

// parseTrace returns the FS-affecting calls under testdata/ made by the root process' main thread, in order,
// and whether that thread was killed by SIGKILL.
func parseTrace(path string) (calls []fsCall, killed bool, rootPid string, err error) {
	b, err := os.ReadFile(path)
	if err != nil {
		return nil, false, "", err
	}
	counts := map[string]int{}
	for _, line := range strings.Split(string(b), "\n") {
		m := reTraceLine.FindStringSubmatch(line)
		if m == nil {
			continue
		}
		pid, rest := m[1], m[2]
		if rootPid == "" {
			rootPid = pid
		}
		if pid != rootPid {
			continue
		}
		if strings.HasPrefix(rest, "+++ killed by SIGKILL") {
			killed = true
			continue
		}
		if reResumed.MatchString(rest) {
			continue // counted at the unfinished (entry) line
		}
		sm := reSyscall.FindStringSubmatch(rest)
		if sm == nil {
			continue
		}
		name, args := sm[1], sm[2]
		counts[name]++
		if !strings.Contains(args, "testdata") {
			continue
		}
		switch name {
		case "open", "openat", "creat":
			if !strings.Contains(args, "O_CREAT") && name != "creat" {
				continue
			}
		case "close", "write", "pwrite64", "writev", "fsync", "fdatasync", "ftruncate":
			// fd annotated with its path by -y
		}
		calls = append(calls, fsCall{Name: name, Ordinal: counts[name], Text: trimTo(rest, 160)})
	}
	return calls, killed, rootPid, nil
}

func trimTo(s string, n int) string {
	if len(s) > n {
		return s[:n] + "…"
	}
	return s
}

var reLogTS = regexp.MustCompile(`\d{4}/\d\d/\d\d \d\d:\d\d:\d\d\.\d{6}`)

func normFailFile(b []byte) string { return reLogTS.ReplaceAllString(string(b), "TS") }

type e3Violation struct {
	Rule, Sig, Msg string
	Workload       E3Workload
	Point          int
	Call           fsCall
}

type e3Result struct {
	Workload   E3Workload
	Points     int
	Killed     int
	Discarded  int // injected runs whose trace prefix did not match the baseline (harness error, discarded)
	CallKinds  map[string]int
	Viols      []e3Violation
	Harness    string
	SampleCalls []string
	States     map[string]int // post-crash state classes
}

func (b *build) e3Child(dir, mode string, wl E3Workload, out string, straceArgs []string, tracePath string) (int, string) {
	wj, _ := json.Marshal(wl)
	var cmd *exec.Cmd
	if straceArgs != nil {
		args := append([]string{"-f", "-qq", "-y", "-s", "64", "-o", tracePath, "-e", "trace=" + e3TraceSet}, straceArgs...)
		args = append(args, "--", b.worker, "-test.run", "^$")
		cmd = exec.Command("strace", args...)
	} else {
		cmd = exec.Command(b.worker, "-test.run", "^$")
	}
	cmd.Dir = dir
	cmd.Env = append(os.Environ(), "VERIF_E3="+mode, "VERIF_E3_WORKLOAD="+string(wj), "VERIF_E3_OUT="+out, "GOMAXPROCS=2")
	if wl.TmpOtherFS {
		if d := otherFSTmp(); d != "" {
			cmd.Env = append(cmd.Env, "TMPDIR="+d)
		}
	}
	o, err := cmd.CombinedOutput()
	code := 0
	if err != nil {
		code = -1
		if ee, ok := err.(*exec.ExitError); ok {
			code = ee.ExitCode()
		}
	}
	return code, string(o)
}

// prepState creates the directory a save starts from. "crashed-save-leftover": an earlier, LONGER save of the same test
// was killed right before its rename, so its complete temp file is still lying around (kept in `leftover`, a template
// directory made once per workload, and copied).
var otherFSOnce sync.Once
var otherFSDir string

// otherFSTmp: a directory on a file system other than the scratch root ("" if there is none).
func otherFSTmp() string {
	otherFSOnce.Do(func() {
		var a, b syscall.Stat_t
		if syscall.Stat(os.TempDir(), &a) != nil || syscall.Stat("/dev/shm", &b) != nil || a.Dev == b.Dev {
			return
		}
		if d, err := os.MkdirTemp("/dev/shm", "vcheck-e3-tmp-"); err == nil {
			otherFSDir = d
		}
	})
	return otherFSDir
}

func prepState(dir string, wl E3Workload, leftover string) error {
	if err := os.MkdirAll(dir, 0o755); err != nil {
		return err
	}
	switch wl.PreState {
	case "dir-exists":
		return os.MkdirAll(filepath.Join(dir, "testdata", "rapid"), 0o755)
	case "crashed-save-leftover":
		if leftover != "" {
			return exec.Command("cp", "-a", leftover+"/.", dir).Run()
		}
	}
	return nil
}

// makeLeftover runs a longer save of the same test and kills it on entry to its rename.
func (b *build) makeLeftover(wl E3Workload, root string) (string, error) {
	dir := filepath.Join(root, "leftover")
	if err := os.MkdirAll(dir, 0o755); err != nil {
		return "", err
	}
	big := wl
	big.Lines += 9
	big.LineLen += 120
	big.Words += 24
	big.Seed += 4242
	tr := filepath.Join(root, "leftover.trace")
	b.e3Child(dir, "save", big, filepath.Join(root, "leftover.report"), []string{"-e", "inject=renameat,renameat2,rename:signal=SIGKILL:when=1"}, tr)
	_, killed, _, err := parseTrace(tr)
	os.Remove(tr)
	if err != nil || !killed {
		return "", fmt.Errorf("leftover child was not killed at its rename (%v)", err)
	}
	if len(listAllFiles(dir)) == 0 {
		return "", fmt.Errorf("leftover state unexpected: nothing left behind by the killed save")
	}
	return dir, nil
}

func listFailFiles(dir string) []string {
	var out []string
	_ = filepath.Walk(filepath.Join(dir, "testdata"), func(p string, fi os.FileInfo, err error) error {
		if err == nil && fi.Mode().IsRegular() && strings.HasSuffix(p, ".fail") {
			out = append(out, p)
		}
		return nil
	})
	sort.Strings(out)
	return out
}

func listAllFiles(dir string) []string {
	var out []string
	_ = filepath.Walk(filepath.Join(dir, "testdata"), func(p string, fi os.FileInfo, err error) error {
		if err == nil && !fi.IsDir() {
			rel, _ := filepath.Rel(dir, p)
			out = append(out, fmt.Sprintf("%s(%d)", rel, fi.Size()))
		}
		return nil
	})
	return out
}

func readReport(path string) (*E3Report, error) {
	b, err := os.ReadFile(path)
	if err != nil {
		return nil, err
	}
	var r E3Report
	if err := json.Unmarshal(b, &r); err != nil {
		return nil, err
	}
	return &r, nil
}

func sameBuf(a, b []uint64) bool {
	if len(a) != len(b) {
		return false
	}
	for i := range a {
		if a[i] != b[i] {
			return false
		}
	}
	return true
}

// e3RunWorkload: baseline, then every crash point (or only `only` if >= 0).
func (b *build) e3RunWorkload(wl E3Workload, root string, only int) *e3Result {
	res := &e3Result{Workload: wl, CallKinds: map[string]int{}, States: map[string]int{}}
	leftover := ""
	if wl.PreState == "crashed-save-leftover" {
		var err error
		if leftover, err = b.makeLeftover(wl, root); err != nil {
			// e.g. a save that never renames: this pre-state cannot be produced; continue from an empty directory
			leftover = ""
			wl.PreState = "empty"
			res.Workload = wl
		}
	}
	base := filepath.Join(root, "base")
	if err := prepState(base, wl, leftover); err != nil {
		res.Harness = err.Error()
		return res
	}
	baseTrace := filepath.Join(root, "base.trace")
	code, out := b.e3Child(base, "save", wl, filepath.Join(root, "base.report"), []string{}, baseTrace)
	if code != 0 {
		res.Harness = fmt.Sprintf("baseline child exit %d: %s", code, trimTo(out, 600))
		return res
	}
	rep, err := readReport(filepath.Join(root, "base.report"))
	if err != nil || (rep.Verdict != "fail" && rep.Verdict != "panic" && !(wl.Flaky && rep.Verdict == "flaky")) {
		res.Harness = fmt.Sprintf("baseline did not fail as planned: %v %+v", err, rep)
		return res
	}
	calls, _, _, err := parseTrace(baseTrace)
	if err != nil {
		res.Harness = err.Error()
		return res
	}
	refFiles := listFailFiles(base)
	refSet := map[string]bool{}
	if wl.Double {
		// two saves in one process: a complete file is one that equals the first save (taken from a pristine single-save
		// run) or whatever the uninterrupted double run leaves behind
		single := wl
		single.Double = false
		pristine := filepath.Join(root, "pristine1")
		_ = os.MkdirAll(pristine, 0o755)
		if code, out := b.e3Child(pristine, "save", single, filepath.Join(root, "pristine1.report"), nil, ""); code != 0 {
			res.Harness = fmt.Sprintf("pristine single-save child exit %d: %s", code, trimTo(out, 300))
			return res
		}
		for _, f := range listFailFiles(pristine) {
			fb, _ := os.ReadFile(f)
			refSet[normFailFile(fb)] = true
		}
		for _, f := range refFiles {
			fb, _ := os.ReadFile(f)
			refSet[normFailFile(fb)] = true
		}
		if len(refFiles) > 1 {
			refFiles = refFiles[len(refFiles)-1:]
		}
	}
	if leftover != "" && len(refFiles) > 1 {
		// the killed earlier save left something behind under a fail-file name
		res.Viols = append(res.Viols, e3Violation{Rule: "C16.J1", Sig: "partial-file-under-fail-name", Workload: wl, Point: 0,
			Msg: fmt.Sprintf("an earlier save of this test was killed before its rename and left a file under a fail-file name; after the next save the directory holds %d *.fail files: %v", len(refFiles), listAllFiles(base))})
		return res
	}
	if len(refFiles) != 1 {
		// no file saved by an uninterrupted run: C06's business; nothing to compare crash states with
		res.Harness = fmt.Sprintf("baseline saved %d fail files (%v); calls=%d", len(refFiles), listAllFiles(base), len(calls))
		return res
	}
	refBytes, _ := os.ReadFile(refFiles[0])
	ref := normFailFile(refBytes)
	if leftover != "" {
		// what an uninterrupted save produces is defined by a PRISTINE directory; the save over the leftovers must equal it
		pristine := filepath.Join(root, "pristine")
		_ = os.MkdirAll(pristine, 0o755)
		if code, out := b.e3Child(pristine, "save", wl, filepath.Join(root, "pristine.report"), nil, ""); code != 0 {
			res.Harness = fmt.Sprintf("pristine child exit %d: %s", code, trimTo(out, 300))
			return res
		}
		pf := listFailFiles(pristine)
		if len(pf) != 1 {
			res.Viols = append(res.Viols, e3Violation{Rule: "C16.J1", Sig: "uninterrupted-save-file-count", Workload: wl, Point: 0,
				Msg: fmt.Sprintf("an uninterrupted save in a pristine directory left %d *.fail files: %v", len(pf), listAllFiles(pristine))})
			return res
		}
		pb, _ := os.ReadFile(pf[0])
		if normFailFile(pb) != ref {
			res.Viols = append(res.Viols, e3Violation{Rule: "C16.J1", Sig: "save-over-crash-leftovers-differs", Workload: wl, Point: len(calls),
				Msg: fmt.Sprintf("an earlier save of this test was killed before its rename; the next (uninterrupted) save produced a fail file of %d bytes that differs from what the same save produces in a pristine directory (%d bytes): partial data of the crashed save became visible under a fail-file name; directory: %v", len(refBytes), len(pb), listAllFiles(base))})
			return res
		}
		refBytes, ref = pb, normFailFile(pb)
	}
	for _, c := range calls {
		res.CallKinds[c.Name]++
	}
	for i, c := range calls {
		if i < 6 || i >= len(calls)-4 {
			res.SampleCalls = append(res.SampleCalls, fmt.Sprintf("#%d %s[%d] %s", i, c.Name, c.Ordinal, trimTo(c.Text, 110)))
		}
	}
	// reference rerun (J2 on the uninterrupted save): must be a complete replay
	code, out = b.e3Child(base, "rerun", wl, filepath.Join(root, "base.rerun"), nil, "")
	rr, err := readReport(filepath.Join(root, "base.rerun"))
	if code != 0 || err != nil {
		res.Harness = fmt.Sprintf("reference rerun failed: %d %v %s", code, err, trimTo(out, 400))
		return res
	}
	if rr.FailFilePhase == 0 || (!wl.Double && !sameBuf(rr.FirstBuf, rep.FinalBuf)) {
		res.Viols = append(res.Viols, e3Violation{Rule: "C16.J2", Sig: "uninterrupted-save-not-replayed", Msg: fmt.Sprintf("a later run did not replay the uninterrupted save (fail-file invocations=%d, logs=%v)", rr.FailFilePhase, rr.IgnoredLogs), Workload: wl, Point: len(calls)})
		return res
	}

	points := make([]int, 0, len(calls))
	for k := range calls {
		if only < 0 || only == k {
			points = append(points, k)
		}
	}
	res.Points = len(points)
	var mu sync.Mutex
	var wg sync.WaitGroup
	sem := make(chan struct{}, 4)
	for _, k := range points {
		wg.Add(1)
		sem <- struct{}{}
		go func(k int) {
			defer wg.Done()
			defer func() { <-sem }()
			c := calls[k]
			dir := filepath.Join(root, fmt.Sprintf("p%d", k))
			_ = prepState(dir, wl, leftover)
			tr := filepath.Join(root, fmt.Sprintf("p%d.trace", k))
			inj := fmt.Sprintf("inject=%s:signal=SIGKILL:when=%d", c.Name, c.Ordinal)
			b.e3Child(dir, "save", wl, filepath.Join(root, fmt.Sprintf("p%d.report", k)), []string{"-e", inj}, tr)
			got, killed, _, err := parseTrace(tr)
			mu.Lock()
			defer mu.Unlock()
			defer os.RemoveAll(dir)
			defer os.Remove(tr)
			// the injected run must have followed the baseline up to and including the entry of call k, and died there
			okPrefix := err == nil && killed && len(got) == k+1
			if okPrefix {
				for i := 0; i <= k; i++ {
					if got[i].Name != calls[i].Name || got[i].Ordinal != calls[i].Ordinal {
						okPrefix = false
					}
				}
			}
			if !okPrefix {
				res.Discarded++
				return
			}
			res.Killed++
			// J1: every *.fail file is complete and identical (up to timestamps) to the uninterrupted save
			ff := listFailFiles(dir)
			state := "no-fail-file"
			for _, f := range ff {
				fb, _ := os.ReadFile(f)
				if normFailFile(fb) != ref && !refSet[normFailFile(fb)] {
					rel, _ := filepath.Rel(dir, f)
					res.Viols = append(res.Viols, e3Violation{Rule: "C16.J1", Sig: "partial-file-under-fail-name", Workload: wl, Point: k, Call: c,
						Msg: fmt.Sprintf("killed before call #%d (%s[%d] %s): %s has %d bytes, the uninterrupted save has %d; directory: %v", k, c.Name, c.Ordinal, trimTo(c.Text, 80), rel, len(fb), len(refBytes), listAllFiles(dir))})
					return
				}
				state = "complete-fail-file"
			}
			all := listAllFiles(dir)
			if len(ff) == 0 && len(all) > 0 {
				state = "temp-leftover-only"
			}
			res.States[state]++
			// J2: a fresh process either behaves as if no fail file existed or replays the complete case
			outp := filepath.Join(root, fmt.Sprintf("p%d.rerun", k))
			code, o := b.e3Child(dir, "rerun", wl, outp, nil, "")
			r2, err := readReport(outp)
			os.Remove(outp)
			if code != 0 || err != nil {
				res.Viols = append(res.Viols, e3Violation{Rule: "C16.J2", Sig: "rerun-crashed", Workload: wl, Point: k, Call: c, Msg: fmt.Sprintf("rerun after crash point #%d failed: exit %d %v %s", k, code, err, trimTo(o, 300))})
				return
			}
			switch {
			case r2.Escaped != "":
				res.Viols = append(res.Viols, e3Violation{Rule: "C16.J2", Sig: "rerun-panicked", Workload: wl, Point: k, Call: c, Msg: "Check panicked after crash: " + r2.Escaped})
			case len(r2.IgnoredLogs) > 0:
				res.Viols = append(res.Viols, e3Violation{Rule: "C16.J2", Sig: "partial-file-picked-up", Workload: wl, Point: k, Call: c,
					Msg: fmt.Sprintf("killed before call #%d (%s[%d]): the next run picked up an unusable file: %v; directory: %v", k, c.Name, c.Ordinal, r2.IgnoredLogs, all)})
			case r2.FailFilePhase == 0:
				if len(ff) > 0 {
					res.Viols = append(res.Viols, e3Violation{Rule: "C16.J2", Sig: "complete-file-not-replayed", Workload: wl, Point: k, Call: c, Msg: fmt.Sprintf("a complete fail file exists after crash point #%d but the next run did not replay it", k)})
				}
			default:
				if (!wl.Double && !sameBuf(r2.FirstBuf, rep.FinalBuf)) || (!wl.Flaky && r2.AfterTests != 0) {
					res.Viols = append(res.Viols, e3Violation{Rule: "C16.J2", Sig: "other-case-replayed", Workload: wl, Point: k, Call: c,
						Msg: fmt.Sprintf("killed before call #%d (%s[%d]): the next run replayed %d words (after %d tests), the uninterrupted save holds %d words; directory: %v", k, c.Name, c.Ordinal, len(r2.FirstBuf), r2.AfterTests, len(rep.FinalBuf), all)})
				}
			}
		}(k)
	}
	wg.Wait()
	return res
}

func e3GenWorkload(seed uint64, idx int, tier string) E3Workload {
	x := seed*0x9e3779b97f4a7c15 + uint64(idx)*0xbf58476d1ce4e5b9 + 12345
	next := func(n int) int {
		x ^= x << 13
		x ^= x >> 7
		x ^= x << 17
		return int(x % uint64(n))
	}
	names := []string{"TestCrash", "TestCrash/sub case", "Тест/日本", "CON", "Test:Crash*", "com1", "T😀é/x\\y", "Test#%&'()[]", "LPT³", "T a.b..", "T-_9"}
	maxLines := 12
	if tier == "thorough" {
		maxLines = 200
	}
	lines := []int{0, 1, 3}[idx%3]
	if idx >= 3 {
		lines = next(maxLines + 1)
	}
	kinds := []int{1, 6, 4, 10} // Fatalf, panic(string), Errorf, nil-map-write
	wl := E3Workload{Name: names[next(len(names))], Lines: lines, LineLen: 1 + next(200), Words: []int{0, 1, 8, 64}[next(4)], Seed: 1 + uint64(next(1<<30)),
		FailKind: kinds[next(len(kinds))], PreState: []string{"empty", "dir-exists", "crashed-save-leftover"}[next(3)], TmpOtherFS: next(4) == 0, Double: next(5) == 0,
		NoDraw: idx%6 == 0 || next(8) == 0, Flaky: idx%6 == 4 || next(10) == 0}
	if wl.NoDraw && wl.Lines == 0 {
		// nothing drawn and nothing logged (Fatalf/Errorf log their message): the fail file has neither output nor data
		wl.FailKind = []int{6, 10}[next(2)]
	}
	return wl.normal()
}

type e3Replay struct {
	Property string     `json:"property"`
	Rule     string     `json:"rule"`
	Sig      string     `json:"sig"`
	Msg      string     `json:"msg"`
	Workload E3Workload `json:"workload"`
	Point    int        `json:"crash_point"`
	Call     fsCall     `json:"call"`
	TreeHash string     `json:"tree_hash"`
	Trace    []string   `json:"trace"`
}

func runE3(prop string, cfg *propCfg, tier string, seed uint64) int {
	start := time.Now()
	if _, err := exec.LookPath("strace"); err != nil {
		die2("strace not available: %v", err)
	}
	b := doBuild(cfg, prop)
	defer b.cleanup()
	buildS := time.Since(start).Seconds()
	n := cfg.QuickRuns
	budget := 0.0
	if tier == "thorough" {
		n = cfg.ThoroughMax
		budget, _ = strconv.ParseFloat(envOr("VERIF_BUDGET_S", "600"), 64)
	}
	var mu sync.Mutex
	var results []*e3Result
	var wg sync.WaitGroup
	sem := make(chan struct{}, 4)
	for i := 0; i < n; i++ {
		if budget > 0 && time.Since(start).Seconds() > budget {
			break
		}
		wg.Add(1)
		sem <- struct{}{}
		go func(i int) {
			defer wg.Done()
			defer func() { <-sem }()
			wl := e3GenWorkload(seed, i, tier)
			root := filepath.Join(b.root, fmt.Sprintf("e3-%d", i))
			_ = os.MkdirAll(root, 0o755)
			r := b.e3RunWorkload(wl, root, -1)
			os.RemoveAll(root)
			mu.Lock()
			results = append(results, r)
			mu.Unlock()
		}(i)
	}
	wg.Wait()
	searchS := time.Since(start).Seconds() - buildS
	if otherFSDir != "" {
		defer os.RemoveAll(otherFSDir)
	}

	findings := loadFindings()
	points, killed, discarded := 0, 0, 0
	kinds := map[string]int{}
	states := map[string]int{}
	var samples []any
	var harness []string
	var viols []e3Violation
	nontriv := 0
	for _, r := range results {
		if r.Harness != "" {
			harness = append(harness, r.Harness)
			continue
		}
		points += r.Points
		killed += r.Killed
		discarded += r.Discarded
		if r.Killed > 0 {
			nontriv++
		}
		for k, v := range r.CallKinds {
			kinds[k] += v
		}
		for k, v := range r.States {
			states[k] += v
		}
		if len(samples) < 3 {
			samples = append(samples, map[string]any{"workload": r.Workload, "crash_points": r.Points, "calls": r.SampleCalls})
		}
		viols = append(viols, r.Viols...)
	}
	if len(harness) > 0 {
		fmt.Fprintf(os.Stderr, "vcheck: E3 harness trouble in %d workloads (not a verdict): %s\n", len(harness), harness[0])
		return 2
	}
	if points > 0 && discarded*5 > points {
		fmt.Fprintf(os.Stderr, "vcheck: E3: %d of %d injected runs did not follow the baseline trace (harness trouble, not a verdict)\n", discarded, points)
		return 2
	}
	exit := 0
	seen := map[string]bool{}
	known := map[string]int{}
	var lines []string
	for _, v := range viols {
		key := v.Rule + "/" + v.Sig
		if f := knownFor(findings, prop, Violation{Rule: v.Rule, Sig: v.Sig}); f != nil {
			known[key]++
			if known[key] == 1 {
				fmt.Printf("KNOWN-FINDING: property=%s sig=%s %s\n", prop, key, f.Text)
			}
			continue
		}
		if seen[key] {
			continue
		}
		seen[key] = true
		// confirm in a fresh build-independent replay of that single crash point
		confirmed := false
		// the only real-time dependence of E3 is the second-granular timestamp in fail-file names (two saves of a
		// "double" workload collide only within one wall-clock second): allow the confirmation a few attempts
		for attempt := 0; attempt < 4 && !confirmed; attempt++ {
			root := filepath.Join(b.root, fmt.Sprintf("confirm-%s-%d", sanitize(key), attempt))
			_ = os.MkdirAll(root, 0o755)
			r := b.e3RunWorkload(v.Workload, root, v.Point)
			os.RemoveAll(root)
			for _, v2 := range r.Viols {
				if v2.Rule == v.Rule && v2.Sig == v.Sig {
					confirmed = true
				}
			}
		}
		if !confirmed {
			fmt.Fprintf(os.Stderr, "vcheck: E3 violation %s did not reproduce (harness nondeterminism, not a verdict): %s\n", key, v.Msg)
			return 2
		}
		rf := e3Replay{Property: prop, Rule: v.Rule, Sig: v.Sig, Msg: v.Msg, Workload: v.Workload, Point: v.Point, Call: v.Call, TreeHash: b.treeHash,
			Trace: []string{fmt.Sprintf("workload %+v", v.Workload), fmt.Sprintf("SIGKILL on entry to FS call #%d of the save: %s[%d] %s", v.Point, v.Call.Name, v.Call.Ordinal, v.Call.Text), v.Msg}}
		path := filepath.Join(outDir("replays"), fmt.Sprintf("%s-%s-seed%d-p%d.json", prop, sanitize(key), seed, v.Point))
		jb, _ := json.MarshalIndent(rf, "", " ")
		_ = os.MkdirAll(filepath.Dir(path), 0o755)
		_ = os.WriteFile(path, jb, 0o644)
		fmt.Printf("violation %s: %s\n", key, v.Msg)
		lines = append(lines, fmt.Sprintf("VIOLATION property=%s replay=%s", prop, path))
		exit = 1
	}
	faults := map[string]int{"SIGKILL_at_fs_syscall_entry": killed}
	for k, v := range kinds {
		faults["crash_points."+k] = v
	}
	if len(samples) == 0 {
		samples = append(samples, "no workload completed")
	}
	cov := map[string]any{
		"evaluations": killed + len(results), "distinct_nontrivial": killed, "rule": cfg.Rule, "samples": samples,
		"exhaustive": true, "explanation": "exhaustive per workload: every FS-affecting system call of the save (in the baseline strace of the same workload) is a crash point; workloads themselves are sampled",
		"workloads": len(results), "workloads_with_kills": nontriv, "crash_points": points, "killed_children": killed, "discarded_injections": discarded,
		"faults_fired": faults, "post_crash_states": states, "runs_per_hour": int(float64(killed) / searchS * 3600), "seeds_per_hour": int(float64(len(results)) / searchS * 3600),
		"simulated_time_s": 0, "simulated_time_note": cfg.SimTimeNote, "known_findings_seen": known, "real_vs_stub": cfg.RealStub,
		"build_s": buildS, "search_s": searchS, "tree_hash": b.treeHash, "engine": "E3",
		"distinct_interleavings_note": "not applicable: single-threaded child; the explored dimension is the crash point",
	}
	ev := &evidence{PropertyID: prop, Tier: tier, Seed: int64(seed), Level: cfg.Level, Coverage: cov, WallS: time.Since(start).Seconds(), Violations: len(lines),
		Assumptions: []string{"process death (SIGKILL) semantics: the kernel's view of the directory is the truth; power loss (lost un-synced pages) is not modelled",
			"a torn single write is not injected (strace cannot split a call); it is dominated by the crash point before that write",
			"strace 6.1 delivers the injected SIGKILL on syscall entry, before the kernel executes the call (validated: every injected run's trace must equal the baseline's prefix and end at the chosen call)"}}
	writeEvidence(prop, ev)
	for _, l := range lines {
		fmt.Println(l)
	}
	fmt.Printf("%s %s: %d workloads, %d crash points, %d killed children (%d discarded), states %v, build %.1fs search %.1fs, violations(new)=%d\n", prop, tier, len(results), points, killed, discarded, states, buildS, searchS, len(lines))
	return exit
}

func replayE3(path string, jb []byte) int {
	var rf e3Replay
	if err := json.Unmarshal(jb, &rf); err != nil {
		die2("%v", err)
	}
	cfg := props[rf.Property]
	b := doBuild(cfg, rf.Property)
	defer b.cleanup()
	root := filepath.Join(b.root, "replay")
	_ = os.MkdirAll(root, 0o755)
	r := b.e3RunWorkload(rf.Workload, root, rf.Point)
	if r.Harness != "" {
		die2("E3 replay harness trouble: %s", r.Harness)
	}
	for _, l := range rf.Trace {
		fmt.Println(l)
	}
	for _, v := range r.Viols {
		fmt.Printf("  rule %s sig %s: %s\n", v.Rule, v.Sig, v.Msg)
		if v.Rule == rf.Rule && v.Sig == rf.Sig {
			fmt.Printf("VIOLATION property=%s replay=%s\n", rf.Property, path)
			return 1
		}
	}
	fmt.Printf("replay of %s: violation %s/%s NOT reproduced on this tree (killed=%d discarded=%d)\n", path, rf.Rule, rf.Sig, r.Killed, r.Discarded)
	return 0
}
