// instrument: type-aware rewrite of a scratch copy of rapid for engine E2.
//
//	X.Lock()/X.RLock()      on sync.Mutex/RWMutex -> verifrt.Lock(site, X.TryLock|X.TryRLock, X.Lock|X.RLock)
//	X.Unlock()/X.RUnlock()  (also deferred)        -> verifrt.Unlock(site, X.Unlock|X.RUnlock)
//	once.Do(f)              on sync.Once           -> verifrt.OnceDo(site, &once, f)
//	defer X.Store(v)        on atomic.Bool         -> defer verifrt.AtomicBoolStore(site, X.Store, v)
//	statements using atomic.* methods / sync.Map methods / channel ops / go statements
//	                                               -> verifrt.Yield(site) inserted before the statement
//
// No function literal is ever added (closure numbering is part of rapid's traceback blacklist).
package main

import (
	"bytes"
	"flag"
	"fmt"
	"go/ast"
	"go/format"
	"go/importer"
	"go/parser"
	"go/token"
	"go/types"
	"os"
	"path/filepath"
	"sort"
	"strings"
)

type site struct {
	id   int
	pos  string
	what string
}

var (
	fset  = token.NewFileSet()
	info  *types.Info
	sites []site
)

func newSite(pos token.Pos, what string) *ast.BasicLit {
	id := len(sites) + 1
	p := fset.Position(pos)
	sites = append(sites, site{id, fmt.Sprintf("%s:%d", filepath.Base(p.Filename), p.Line), what})
	return &ast.BasicLit{Kind: token.INT, Value: fmt.Sprint(id)}
}

func namedType(t types.Type) (pkg, name string) {
	if p, ok := t.(*types.Pointer); ok {
		t = p.Elem()
	}
	if n, ok := t.(*types.Named); ok && n.Obj() != nil && n.Obj().Pkg() != nil {
		return n.Obj().Pkg().Path(), n.Obj().Name()
	}
	return "", ""
}

// syncCall classifies a call expression: returns receiver expr, receiver type name ("sync.Mutex"…), method name.
func syncCall(call *ast.CallExpr) (recv ast.Expr, typ, method string) {
	sel, ok := call.Fun.(*ast.SelectorExpr)
	if !ok {
		return nil, "", ""
	}
	s := info.Selections[sel]
	if s == nil || s.Kind() != types.MethodVal {
		return nil, "", ""
	}
	fn, ok := s.Obj().(*types.Func)
	if !ok {
		return nil, "", ""
	}
	sig := fn.Type().(*types.Signature)
	if sig.Recv() == nil {
		return nil, "", ""
	}
	pkg, name := namedType(sig.Recv().Type())
	if pkg == "sync" || pkg == "sync/atomic" {
		return sel.X, pkg + "." + name, fn.Name()
	}
	return nil, "", ""
}

// addrOf: the identity of the mutex (pointer), as an interface value.
func addrOf(recv ast.Expr) ast.Expr {
	if _, isPtr := info.TypeOf(recv).(*types.Pointer); isPtr {
		return recv
	}
	return &ast.UnaryExpr{Op: token.AND, X: recv}
}

func sel(x ast.Expr, name string) ast.Expr {
	return &ast.SelectorExpr{X: x, Sel: ast.NewIdent(name)}
}

func rt(name string, args ...ast.Expr) *ast.CallExpr {
	return &ast.CallExpr{Fun: sel(ast.NewIdent("verifrt"), name), Args: args}
}

// rewriteCall returns a replacement for a Lock/Unlock/Once call, or nil.
func rewriteCall(call *ast.CallExpr, deferred bool) *ast.CallExpr {
	recv, typ, m := syncCall(call)
	if recv == nil {
		return nil
	}
	switch typ {
	case "sync.Mutex", "sync.RWMutex":
		switch m {
		case "Lock":
			return rt("Lock", newSite(call.Pos(), typ+".Lock"), addrOf(recv), sel(recv, "TryLock"), sel(recv, "Lock"))
		case "RLock":
			return rt("RLock", newSite(call.Pos(), typ+".RLock"), addrOf(recv), sel(recv, "TryRLock"), sel(recv, "RLock"))
		case "Unlock":
			return rt("Unlock", newSite(call.Pos(), typ+".Unlock"), addrOf(recv), sel(recv, "Unlock"))
		case "RUnlock":
			return rt("RUnlock", newSite(call.Pos(), typ+".RUnlock"), addrOf(recv), sel(recv, "RUnlock"))
		}
	case "sync.Once":
		if m == "Do" && len(call.Args) == 1 {
			var addr ast.Expr = &ast.UnaryExpr{Op: token.AND, X: recv}
			if _, isPtr := info.TypeOf(recv).(*types.Pointer); isPtr {
				addr = recv
			}
			return rt("OnceDo", newSite(call.Pos(), "sync.Once.Do"), addr, call.Args[0])
		}
	case "sync/atomic.Bool":
		if deferred && m == "Store" && len(call.Args) == 1 {
			return rt("AtomicBoolStore", newSite(call.Pos(), "deferred atomic.Bool.Store"), sel(recv, "Store"), call.Args[0])
		}
	}
	return nil
}

// needsYield: the statement itself (not nested blocks / function literals) performs an atomic / sync.Map / channel operation.
func needsYield(st ast.Stmt) (bool, string) {
	found, what := false, ""
	var visit func(n ast.Node) bool
	visit = func(n ast.Node) bool {
		if n == nil || found {
			return false
		}
		switch x := n.(type) {
		case *ast.BlockStmt, *ast.FuncLit:
			return false
		case *ast.CallExpr:
			if _, typ, m := syncCall(x); typ != "" {
				if strings.HasPrefix(typ, "sync/atomic.") || (strings.HasPrefix(typ, "sync.") && typ != "sync.Mutex" && typ != "sync.RWMutex" && typ != "sync.Once") {
					found, what = true, typ+"."+m
					return false
				}
			}
		case *ast.UnaryExpr:
			if x.Op == token.ARROW {
				found, what = true, "chan receive"
				return false
			}
		case *ast.SendStmt:
			found, what = true, "chan send"
			return false
		case *ast.GoStmt:
			found, what = true, "go statement"
			return false
		}
		return true
	}
	switch s := st.(type) {
	case *ast.IfStmt:
		ast.Inspect(s.Init, visit)
		ast.Inspect(s.Cond, visit)
	case *ast.ForStmt:
		ast.Inspect(s.Init, visit)
		ast.Inspect(s.Cond, visit)
	case *ast.RangeStmt:
		ast.Inspect(s.X, visit)
	case *ast.SwitchStmt:
		ast.Inspect(s.Init, visit)
		ast.Inspect(s.Tag, visit)
	case *ast.TypeSwitchStmt, *ast.SelectStmt, *ast.BlockStmt, *ast.LabeledStmt:
	case *ast.DeferStmt:
		// deferred calls are handled by rewriteCall; arguments are evaluated now
		for _, a := range s.Call.Args {
			ast.Inspect(a, visit)
		}
	default:
		ast.Inspect(st, visit)
	}
	return found, what
}

func processList(list []ast.Stmt) []ast.Stmt {
	var out []ast.Stmt
	for _, st := range list {
		switch s := st.(type) {
		case *ast.ExprStmt:
			if call, ok := s.X.(*ast.CallExpr); ok {
				if r := rewriteCall(call, false); r != nil {
					s.X = r
					out = append(out, s)
					continue
				}
			}
		case *ast.DeferStmt:
			if r := rewriteCall(s.Call, true); r != nil {
				s.Call = r
				out = append(out, s)
				continue
			}
		}
		if ok, what := needsYield(st); ok {
			out = append(out, &ast.ExprStmt{X: rt("Yield", newSite(st.Pos(), what))})
		}
		out = append(out, st)
	}
	return out
}

func processNode(n ast.Node) {
	ast.Inspect(n, func(n ast.Node) bool {
		switch x := n.(type) {
		case *ast.BlockStmt:
			x.List = processList(x.List)
		case *ast.CaseClause:
			x.Body = processList(x.Body)
		case *ast.CommClause:
			x.Body = processList(x.Body)
		}
		return true
	})
}

func main() {
	dir := flag.String("dir", "", "scratch copy of rapid")
	flag.Parse()
	ents, err := os.ReadDir(*dir)
	if err != nil {
		fmt.Fprintln(os.Stderr, err)
		os.Exit(1)
	}
	var files []*ast.File
	var names []string
	for _, e := range ents {
		n := e.Name()
		if e.IsDir() || !strings.HasSuffix(n, ".go") || strings.HasSuffix(n, "_test.go") {
			continue
		}
		f, err := parser.ParseFile(fset, filepath.Join(*dir, n), nil, parser.ParseComments)
		if err != nil {
			fmt.Fprintln(os.Stderr, err)
			os.Exit(1)
		}
		files = append(files, f)
		names = append(names, n)
	}
	info = &types.Info{Selections: map[*ast.SelectorExpr]*types.Selection{}, Types: map[ast.Expr]types.TypeAndValue{}, Uses: map[*ast.Ident]types.Object{}, Defs: map[*ast.Ident]types.Object{}}
	conf := types.Config{Importer: importer.ForCompiler(fset, "source", nil), Error: func(err error) {}}
	if _, err := conf.Check("pgregory.net/rapid", fset, files, info); err != nil {
		fmt.Fprintln(os.Stderr, "instrument: type check:", err)
		os.Exit(1)
	}
	total := 0
	for i, f := range files {
		before := len(sites)
		processNode(f)
		if len(sites) == before {
			continue
		}
		total += len(sites) - before
		// add the import
		imp := &ast.ImportSpec{Path: &ast.BasicLit{Kind: token.STRING, Value: `"pgregory.net/rapid/verifrt"`}}
		added := false
		for _, d := range f.Decls {
			if gd, ok := d.(*ast.GenDecl); ok && gd.Tok == token.IMPORT {
				gd.Specs = append(gd.Specs, imp)
				if !gd.Lparen.IsValid() {
					gd.Lparen = gd.Pos()
					gd.Rparen = gd.End()
				}
				added = true
				break
			}
		}
		if !added {
			f.Decls = append([]ast.Decl{&ast.GenDecl{Tok: token.IMPORT, Specs: []ast.Spec{imp}}}, f.Decls...)
		}
		var buf bytes.Buffer
		if err := format.Node(&buf, fset, f); err != nil {
			fmt.Fprintln(os.Stderr, "instrument: print:", err)
			os.Exit(1)
		}
		if err := os.WriteFile(filepath.Join(*dir, names[i]), buf.Bytes(), 0o644); err != nil {
			fmt.Fprintln(os.Stderr, err)
			os.Exit(1)
		}
	}
	sort.Slice(sites, func(i, j int) bool { return sites[i].id < sites[j].id })
	for _, s := range sites {
		fmt.Printf("site %d %s %s\n", s.id, s.pos, s.what)
	}
	fmt.Printf("instrumented %d sites\n", total)
	if total == 0 {
		fmt.Fprintln(os.Stderr, "instrument: no synchronisation sites found")
	}
}
