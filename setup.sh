#!/bin/sh
# Build the framework from files on disk only (offline). Run in /verif.
set -e
cd "$(dirname "$0")"
export GOFLAGS=-mod=mod GOPROXY=off GOSUMDB=off GOTOOLCHAIN=local
GO=/opt/veriftools/go1.26.8/bin/go
mkdir -p bin evidence replays
$GO build -trimpath -o bin/vcheck ./cmd/vcheck
if [ -d cmd/instrument ] && ls cmd/instrument/*.go >/dev/null 2>&1; then
  $GO build -trimpath -o bin/instrument ./cmd/instrument
fi
./bin/vcheck -warm
echo "setup ok"
